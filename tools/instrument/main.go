// Command instrument copies a go-orbit-db source tree and inserts verifhook.Yield() calls at
// statement granularity into the copy (never into the original): at the start of every function
// body and after every statement that contains a call. Built and run by bin/check.
package main

import (
	"bytes"
	"fmt"
	"go/ast"
	"go/format"
	"go/parser"
	"go/token"
	"io"
	"io/fs"
	"os"
	"path/filepath"
	"strconv"
	"strings"
)

const hookPkg = "berty.tech/go-orbit-db/verifhook"

func main() {
	if len(os.Args) != 3 {
		fmt.Fprintln(os.Stderr, "usage: instrument <src-repo> <dst-dir>")
		os.Exit(2)
	}
	src, dst := os.Args[1], os.Args[2]
	n := 0
	err := filepath.WalkDir(src, func(p string, d fs.DirEntry, err error) error {
		if err != nil {
			return err
		}
		rel, _ := filepath.Rel(src, p)
		if d.IsDir() {
			if rel == ".git" || rel == "tests" || rel == "out" {
				return filepath.SkipDir
			}
			return os.MkdirAll(filepath.Join(dst, rel), 0o755)
		}
		if !d.Type().IsRegular() {
			return nil
		}
		out := filepath.Join(dst, rel)
		if strings.HasSuffix(p, ".go") && !strings.HasSuffix(p, "_test.go") && !strings.HasPrefix(rel, "verifhook"+string(filepath.Separator)) && instrumentable(rel) {
			data, err := os.ReadFile(p)
			if err != nil {
				return err
			}
			res, cnt, err := instrument(p, data)
			if err != nil {
				return fmt.Errorf("%s: %w", rel, err)
			}
			n += cnt
			return os.WriteFile(out, res, 0o644)
		}
		if strings.HasSuffix(p, "_test.go") {
			return nil
		}
		return copyFile(p, out)
	})
	if err != nil {
		fmt.Fprintln(os.Stderr, "instrument:", err)
		os.Exit(1)
	}
	fmt.Printf("yield points inserted: %d\n", n)
}

// Only the packages whose goroutines share state: stores, events, baseorbitdb, pubsub adapters,
// access controllers, cache. Pure helpers are left alone.
func instrumentable(rel string) bool {
	for _, pre := range []string{"stores/", "events/", "baseorbitdb/", "pubsub/", "accesscontroller/", "cache/", "messagemarshaler/", "orbitdb.go"} {
		if strings.HasPrefix(filepath.ToSlash(rel), pre) {
			return true
		}
	}
	return false
}

func copyFile(a, b string) error {
	in, err := os.Open(a)
	if err != nil {
		return err
	}
	defer in.Close()
	out, err := os.Create(b)
	if err != nil {
		return err
	}
	defer out.Close()
	_, err = io.Copy(out, in)
	return err
}

func yieldStmt() ast.Stmt {
	return &ast.ExprStmt{X: &ast.CallExpr{Fun: &ast.SelectorExpr{X: ast.NewIdent("verifhook"), Sel: ast.NewIdent("Yield")}}}
}

func yieldLockStmt() ast.Stmt {
	return &ast.ExprStmt{X: &ast.CallExpr{Fun: &ast.SelectorExpr{X: ast.NewIdent("verifhook"), Sel: ast.NewIdent("YieldLock")}}}
}

// isYield recognises a statement inserted by yieldStmt.
func isYield(s ast.Stmt) bool {
	es, ok := s.(*ast.ExprStmt)
	if !ok {
		return false
	}
	c, ok := es.X.(*ast.CallExpr)
	if !ok {
		return false
	}
	se, ok := c.Fun.(*ast.SelectorExpr)
	if !ok {
		return false
	}
	id, ok := se.X.(*ast.Ident)
	return ok && id.Name == "verifhook" && se.Sel.Name == "Yield"
}

func heldStmt(d int) ast.Stmt {
	return &ast.ExprStmt{X: &ast.CallExpr{Fun: &ast.SelectorExpr{X: ast.NewIdent("verifhook"), Sel: ast.NewIdent("Held")},
		Args: []ast.Expr{&ast.BasicLit{Kind: token.INT, Value: strconv.Itoa(d)}}}}
}

func unlockCall(c *ast.CallExpr) bool {
	if c == nil || len(c.Args) != 0 {
		return false
	}
	se, ok := c.Fun.(*ast.SelectorExpr)
	return ok && (se.Sel.Name == "Unlock" || se.Sel.Name == "RUnlock")
}

// isUnlockCall: x.Unlock() / x.RUnlock() as a statement of its own.
func isUnlockCall(s ast.Stmt) bool {
	es, ok := s.(*ast.ExprStmt)
	if !ok {
		return false
	}
	c, ok := es.X.(*ast.CallExpr)
	return ok && unlockCall(c)
}

// isLockCall: x.Lock() / x.RLock() as a statement of its own.
func isLockCall(s ast.Stmt) bool {
	es, ok := s.(*ast.ExprStmt)
	if !ok {
		return false
	}
	c, ok := es.X.(*ast.CallExpr)
	if !ok || len(c.Args) != 0 {
		return false
	}
	se, ok := c.Fun.(*ast.SelectorExpr)
	return ok && (se.Sel.Name == "Lock" || se.Sel.Name == "RLock")
}

func hasCall(n ast.Node) bool {
	found := false
	ast.Inspect(n, func(x ast.Node) bool {
		switch x.(type) {
		case *ast.FuncLit:
			return false
		case *ast.CallExpr:
			found = true
		}
		return !found
	})
	return found
}

type inst struct {
	count     int
	plainOnly bool
}

func (in *inst) list(stmts []ast.Stmt, atStart bool) []ast.Stmt {
	var out []ast.Stmt
	if atStart {
		out = append(out, yieldStmt())
		in.count++
	}
	for i, s := range stmts {
		in.stmt(s)
		// the point right before a mutex acquisition is of a kind of its own (not in the
		// access controllers: they are called back by the log with its lock held)
		if isLockCall(s) && !in.plainOnly {
			if n := len(out); n > 0 && isYield(out[n-1]) {
				out[n-1] = yieldLockStmt()
			} else {
				out = append(out, yieldLockStmt())
				in.count++
			}
		}
		// lock depth: +1 once acquired, -1 right before releasing (also when deferred)
		if isUnlockCall(s) {
			out = append(out, heldStmt(-1))
		}
		if ds, ok := s.(*ast.DeferStmt); ok && unlockCall(ds.Call) {
			call := ds.Call
			ds.Call = &ast.CallExpr{Fun: &ast.FuncLit{Type: &ast.FuncType{Params: &ast.FieldList{}},
				Body: &ast.BlockStmt{List: []ast.Stmt{heldStmt(-1), &ast.ExprStmt{X: call}}}}}
		}
		out = append(out, s)
		if isLockCall(s) {
			out = append(out, heldStmt(1))
		}
		switch s.(type) {
		case *ast.ExprStmt, *ast.AssignStmt, *ast.GoStmt, *ast.SendStmt, *ast.IncDecStmt, *ast.DeclStmt:
			if hasCall(s) || isSend(s) {
				if !terminates(s) {
					out = append(out, yieldStmt())
					in.count++
				}
			}
		case *ast.IfStmt, *ast.ForStmt, *ast.RangeStmt, *ast.SwitchStmt, *ast.TypeSwitchStmt, *ast.SelectStmt:
			// the path that falls through a compound statement (condition false, loop left,
			// no case taken): what the condition read may be stale by the next statement
			if i < len(stmts)-1 {
				out = append(out, yieldStmt())
				in.count++
			}
		}
	}
	return out
}

func isSend(s ast.Stmt) bool { _, ok := s.(*ast.SendStmt); return ok }

func terminates(s ast.Stmt) bool {
	if es, ok := s.(*ast.ExprStmt); ok {
		if c, ok := es.X.(*ast.CallExpr); ok {
			if id, ok := c.Fun.(*ast.Ident); ok && id.Name == "panic" {
				return true
			}
		}
	}
	return false
}

func (in *inst) block(b *ast.BlockStmt, atStart bool) {
	if b == nil {
		return
	}
	b.List = in.list(b.List, atStart)
}

func (in *inst) stmt(s ast.Stmt) {
	switch x := s.(type) {
	case *ast.BlockStmt:
		in.block(x, false)
	case *ast.IfStmt:
		// a point between the evaluation of a condition and the branch taken on it
		// (check-then-act without a lock, a wait entered on a condition that has changed)
		in.exprs(x.Init, x.Cond)
		in.block(x.Body, true)
		if eb, ok := x.Else.(*ast.BlockStmt); ok {
			in.block(eb, true)
		} else if x.Else != nil {
			in.stmt(x.Else)
		}
	case *ast.ForStmt:
		in.exprs(x.Init, x.Cond, x.Post)
		in.block(x.Body, x.Cond != nil)
	case *ast.RangeStmt:
		in.exprs(x.X)
		in.block(x.Body, false)
	case *ast.SwitchStmt:
		in.exprs(x.Init, x.Tag)
		in.cases(x.Body)
	case *ast.TypeSwitchStmt:
		in.cases(x.Body)
	case *ast.SelectStmt:
		for _, c := range x.Body.List {
			if cc, ok := c.(*ast.CommClause); ok {
				cc.Body = in.list(cc.Body, len(cc.Body) > 0)
			}
		}
	case *ast.LabeledStmt:
		in.stmt(x.Stmt)
	case *ast.ExprStmt:
		in.exprs(x.X)
	case *ast.AssignStmt:
		for _, e := range x.Rhs {
			in.exprs(e)
		}
	case *ast.GoStmt:
		in.exprs(x.Call)
	case *ast.DeferStmt:
		in.exprs(x.Call)
	case *ast.ReturnStmt:
		for _, e := range x.Results {
			in.exprs(e)
		}
	case *ast.DeclStmt:
		in.exprs(x.Decl)
	case *ast.SendStmt:
		in.exprs(x.Value)
	}
}

func (in *inst) cases(b *ast.BlockStmt) {
	for _, c := range b.List {
		if cc, ok := c.(*ast.CaseClause); ok {
			cc.Body = in.list(cc.Body, len(cc.Body) > 0)
		}
	}
}

// exprs instruments function literals nested in expressions / simple statements.
func (in *inst) exprs(nodes ...ast.Node) {
	for _, n := range nodes {
		if n == nil || (fmt.Sprintf("%v", n) == "<nil>") {
			continue
		}
		ast.Inspect(n, func(x ast.Node) bool {
			if fl, ok := x.(*ast.FuncLit); ok {
				in.block(fl.Body, true)
				return false
			}
			return true
		})
	}
}

func instrument(name string, data []byte) ([]byte, int, error) {
	fset := token.NewFileSet()
	f, err := parser.ParseFile(fset, name, data, parser.ParseComments)
	if err != nil {
		return nil, 0, err
	}
	in := &inst{plainOnly: strings.Contains(filepath.ToSlash(name), "/accesscontroller/")}
	for _, d := range f.Decls {
		if fd, ok := d.(*ast.FuncDecl); ok && fd.Body != nil {
			in.block(fd.Body, true)
		}
	}
	if in.count == 0 {
		return data, 0, nil
	}
	// import
	has := false
	for _, im := range f.Imports {
		if p, _ := strconv.Unquote(im.Path.Value); p == hookPkg {
			has = true
		}
	}
	if !has {
		spec := &ast.ImportSpec{Path: &ast.BasicLit{Kind: token.STRING, Value: strconv.Quote(hookPkg)}}
		added := false
		for _, d := range f.Decls {
			if gd, ok := d.(*ast.GenDecl); ok && gd.Tok == token.IMPORT {
				gd.Specs = append(gd.Specs, spec)
				if !gd.Lparen.IsValid() {
					gd.Lparen = gd.Pos()
					gd.Rparen = gd.End()
				}
				added = true
				break
			}
		}
		if !added {
			f.Decls = append([]ast.Decl{&ast.GenDecl{Tok: token.IMPORT, Specs: []ast.Spec{spec}}}, f.Decls...)
		}
	}
	var buf bytes.Buffer
	// comments are dropped on purpose: inserted statements have no positions and the printer
	// would otherwise misplace comments; build constraints are re-attached below
	f.Comments = nil
	if err := format.Node(&buf, token.NewFileSet(), f); err != nil {
		return nil, 0, err
	}
	res := buf.Bytes()
	// keep the file's build constraint lines
	var head []string
	for _, ln := range strings.Split(string(data), "\n") {
		t := strings.TrimSpace(ln)
		if strings.HasPrefix(t, "//go:build") || strings.HasPrefix(t, "// +build") {
			head = append(head, ln)
		}
		if strings.HasPrefix(t, "package ") {
			break
		}
	}
	if len(head) > 0 {
		res = append([]byte(strings.Join(head, "\n")+"\n\n"), res...)
	}
	return res, in.count, nil
}
