module instrument

go 1.26.8
