package sim

import (
	"runtime"

	"berty.tech/go-orbit-db/iface"
	"berty.tech/go-orbit-db/stores/replicator"
	"berty.tech/go-orbit-db/verifhook"
)

// ReplStats reads the replicator's bookkeeping through the verif-only accessor.
func ReplStats(s iface.Store) (replicator.VerifStats, bool) {
	insp, ok := s.Replicator().(replicator.VerifInspector)
	if !ok {
		return replicator.VerifStats{}, false
	}
	return insp.VerifStats(), true
}

// ReplicatorIdle: nothing queued, fetching, in progress or buffered.
func ReplicatorIdle(s iface.Store) bool {
	st, ok := ReplStats(s)
	if !ok {
		return true
	}
	return st.Queued == 0 && st.Added == 0 && st.Fetching == 0 && st.InProgress == 0 && st.Buffered == 0
}

// InstallHooks routes the repository's schedule points to the world's parking lot. `want`
// selects which points park in this run (nil = none).
func (k *K) InstallHooks(want func(point string, owner interface{}) bool) {
	w := k.W
	verifhook.SetYield(func(point string, owner interface{}) {
		w.ParkHere(point, owner, want)
	})
}

func UninstallHooks() { verifhook.SetYield(nil) }

// OwnerStoreID resolves a hook owner to a database address where possible.
func OwnerStoreID(owner interface{}) string {
	switch o := owner.(type) {
	case replicator.VerifInspector:
		return o.VerifStoreID()
	case interface{ Address() interface{ String() string } }:
		return o.Address().String()
	}
	if a, ok := owner.(iface.Store); ok {
		return a.Address().String()
	}
	return ""
}

// ---- fine-grained seeded yields (sources instrumented by tools/instrument) ----

var autoYieldState, autoYieldEvery uint64
var autoYieldCount uint64

// SetAutoYieldRate: every==0 switches the yields off; otherwise a goroutine reaching an
// inserted yield point calls runtime.Gosched() with probability 1/every, decided by a
// generator whose state only advances at yield points (so the sequence of decisions is a
// function of the run).
func SetAutoYieldRate(seed uint64, every uint64) {
	autoYieldState, autoYieldEvery, autoYieldCount = seed|1, every, 0
	if every == 0 {
		verifhook.SetAutoYield(nil)
		return
	}
	verifhook.SetAutoYield(func() {
		if inKernel {
			return
		}
		autoYieldState = autoYieldState*6364136223846793005 + 1442695040888963407
		if (autoYieldState>>33)%autoYieldEvery == 0 {
			autoYieldCount++
			runtime.Gosched()
		}
	})
}
