package sim

import (
	"runtime"

	"berty.tech/go-orbit-db/iface"
	"berty.tech/go-orbit-db/stores/replicator"
	"berty.tech/go-orbit-db/verifhook"
)

// ReplStats reads the replicator's bookkeeping through the verif-only accessor.
func ReplStats(s iface.Store) (replicator.VerifStats, bool) {
	insp, ok := s.Replicator().(replicator.VerifInspector)
	if !ok {
		return replicator.VerifStats{}, false
	}
	return insp.VerifStats(), true
}

// ReplicatorIdle: nothing queued, fetching, in progress or buffered.
func ReplicatorIdle(s iface.Store) bool {
	st, ok := ReplStats(s)
	if !ok {
		return true
	}
	return st.Queued == 0 && st.Added == 0 && st.Fetching == 0 && st.InProgress == 0 && st.Buffered == 0
}

// InstallHooks routes the repository's schedule points to the world's parking lot. `want`
// selects which points park in this run (nil = none).
func (k *K) InstallHooks(want func(point string, owner interface{}) bool) {
	w := k.W
	base := k.AlwaysPark
	verifhook.SetYield(func(point string, owner interface{}) {
		w.ParkHere(point, owner, func(pt string, o interface{}) bool {
			return (want != nil && want(pt, o)) || (base != nil && base(pt, o))
		})
	})
}

// RemoveHooks takes out what InstallHooks put in; the points a scenario parks at for the whole
// run (AlwaysPark) stay.
func (k *K) RemoveHooks() {
	if k.AlwaysPark != nil {
		k.InstallHooks(nil)
		return
	}
	UninstallHooks()
}

func UninstallHooks() { verifhook.SetYield(nil) }

// OwnerStoreID resolves a hook owner to a database address where possible.
func OwnerStoreID(owner interface{}) string {
	switch o := owner.(type) {
	case replicator.VerifInspector:
		return o.VerifStoreID()
	case interface {
		Address() interface{ String() string }
	}:
		return o.Address().String()
	}
	if a, ok := owner.(iface.Store); ok {
		return a.Address().String()
	}
	return ""
}

// ---- fine-grained seeded yields (sources instrumented by tools/instrument) ----

var autoYieldState, autoYieldEvery uint64
var autoYieldCount uint64
var autoYieldBursts = []int{1, 1, 1, 1, 2, 4, 16, 64}

// SetAutoYieldRate: every==0 switches the yields off; otherwise a goroutine reaching an
// inserted yield point calls runtime.Gosched() with probability 1/every, decided by a
// generator whose state only advances at yield points (so the sequence of decisions is a
// function of the run). Points right before a mutex acquisition fire with probability
// 1/lockEvery and then always as a long preemption; with soft parks on (SetSoftParks) they
// may instead stall the goroutine for some kernel quanta.
func SetAutoYieldRate(seed uint64, every, lockEvery uint64) {
	autoYieldState, autoYieldEvery, autoYieldCount = seed|1, every, 0
	if every == 0 {
		verifhook.SetAutoYield(nil)
	} else {
		verifhook.SetAutoYield(func() {
			if inKernel {
				return
			}
			autoYieldState = autoYieldState*6364136223846793005 + 1442695040888963407
			if yieldDebug != nil {
				yieldDebug("y")
			}
			if (autoYieldState>>33)%autoYieldEvery == 0 {
				autoYieldCount++
				// mostly a single yield; sometimes a long preemption: the goroutine gives its
				// turn away many times in a row, so that the others get through whole
				// operations while it sits between two of its statements (no clock, no
				// blocking: it stays runnable, so a goroutine waiting for a mutex it holds
				// just waits a little longer)
				n := autoYieldBursts[(autoYieldState>>41)%uint64(len(autoYieldBursts))]
				for i := 0; i < n; i++ {
					runtime.Gosched()
				}
			}
		})
	}
	if (every == 0 || lockEvery == 0) && softEvery == 0 {
		verifhook.SetAutoYieldLock(nil)
		return
	}
	if every == 0 {
		lockEvery = 0
	}
	verifhook.SetAutoYieldLock(func() {
		if inKernel {
			return
		}
		autoYieldState = autoYieldState*6364136223846793005 + 1442695040888963407
		if yieldDebug != nil {
			yieldDebug("l")
		}
		x := autoYieldState >> 33
		if softEvery > 0 && !softSuspended && x%softEvery == 0 && heldDepth[verifGoid()] == 0 {
			softW.softPark(softQuanta[(autoYieldState>>41)%uint64(len(softQuanta))])
			return
		}
		if lockEvery > 0 && (x>>8)%lockEvery == 0 {
			autoYieldCount++
			n := autoYieldLockBursts[(autoYieldState>>41)%uint64(len(autoYieldLockBursts))]
			for i := 0; i < n; i++ {
				runtime.Gosched()
			}
		}
	})
}

var autoYieldLockBursts = []int{16, 64, 64, 256}

// yieldDebug (VERIF_YIELDLOG=<file>): every arrival at an inserted point, with its call site
var yieldDebug func(kind string)

// ---- soft parks: the kernel stalls a goroutine right before a mutex acquisition ----

var softW *World
var softEvery uint64
var softSuspended bool
var softQuanta = []int{1, 2, 3, 5, 8, 13}
var heldDepth = map[uint64]int{}

// SetSoftParks (before SetAutoYieldRate): with every > 0, a goroutine that reaches a point right
// before a Lock/RLock call while holding none of the repository's locks (depth kept from the
// Held notifications of the instrumented copy) is, with probability 1/every, stalled for 1-13
// kernel quanta: unlike a yield, the kernel keeps acting (deliveries, fetches, other
// releases) while the goroutine sits there.
func SetSoftParks(w *World, every uint64) {
	softW, softEvery, softSuspended = w, every, false
	heldDepth = map[uint64]int{}
	if every == 0 {
		verifhook.SetHeld(nil)
		return
	}
	verifhook.SetHeld(func(d int) {
		id := verifGoid()
		if n := heldDepth[id] + d; n <= 0 {
			delete(heldDepth, id)
		} else {
			heldDepth[id] = n
		}
	})
}
