package sim

import (
	"encoding/json"
	"fmt"
	"strings"
	"time"

	orbitdb "berty.tech/go-orbit-db"
	"berty.tech/go-orbit-db/iface"
)

func init() {
	Register(&Scenario{Prop: "C12", Name: "malformed-messages", Run: scenC12, SoftParks: true, Weight: 1,
		Rule: "honest writer W and receiver R sharing 1-2 databases, and a hostile peer that is present on the database topics and on the pairwise direct channel with R; W writes, real announcements are captured from the wire; then 3-10 (thorough 3-24) hostile payloads, each from one generator class {random bytes, JSON with heads null / [] / [null] / ill-typed / empty objects, a real head with one of identity, clock, hash, key, sig, next, id, payload removed or nulled, byte flip / delete / splice / truncate / duplicate of a captured real message, huge JSON nesting, wrong address field, a real head followed in the same message by a copy of it under the address of another block} sent on the database topic or on the direct channel, one in four (and every message of the last class) with a second hostile payload right behind it on the same route; one payload in three is followed by a race: W writes and a corrupted twin of its fresh announcement (same claimed hash) is delivered to R in the same quantum as the real one, whose entry must still reach R before any later write (one variant drops W's own announcement and has the hostile peer relay the genuine bytes on its direct channel with R, a broken payload right behind them); after each payload: the worker process is alive, every entry in R's logs is one an honest writer wrote and R's views equal the replay of its logs; finally W writes to every database and each new entry must reach R within 90 virtual seconds; non-trivial = >=3 payloads from >=3 classes over both routes"})
}

func init() {
	Register(&Scenario{Prop: "C12", Name: "directchannel-frames", Run: func(k *K) { scenDirect(k, "C12", true) }, Weight: 1,
		Rule: "the raw-stream route of the property: two real directchannel adapters over the stub libp2p host and a hostile third peer; 12-48 frames, most of them hostile or broken (length prefix 0 / larger than the body / 4 MiB+1 / 2^32 / 2^63 / 2^64-1 / unterminated varint / empty stream; honest frames reset or truncated mid-body by the kernel), chunked by the kernel, followed by well-formed frames; oracle: the process survives, broken frames produce no event, every complete frame within the limit sent afterwards is delivered once with the right peer; non-trivial = >=1 complete frame after >=1 broken one"})
}

func scenC12(k *K) {
	adv := k.NewAdversary()
	ndb := k.C.Range(1, 2)
	var peers []*Peer
	for i := 0; i < 2; i++ {
		p, err := k.StartPeer(k.W.AddNode())
		if err != nil {
			panic(abortPanic{err.Error()})
		}
		peers = append(peers, p)
	}
	ids := []string{peers[0].DB.Identity().ID, peers[1].DB.Identity().ID}
	type dbr struct {
		addr string
		w, r iface.Store
	}
	var dbs []*dbr
	types := []string{"keyvalue", "eventlog", "docstore"}
	for d := 0; d < ndb; d++ {
		typ := types[k.C.Intn(3)]
		op := k.Do(peers[0].Node.Idx, "create", 50, func() (interface{}, error) {
			ctx, cancel := OpCtx(time.Minute)
			defer cancel()
			return peers[0].DB.Create(ctx, fmt.Sprintf("db%d", d), typ, &orbitdb.CreateDBOptions{AccessController: WriteACL(ids...)})
		})
		if !op.Done || op.Err != nil {
			panic(abortPanic{fmt.Sprint(op.Err)})
		}
		r := &dbr{w: op.Val.(iface.Store)}
		r.addr = r.w.Address().String()
		oop := k.Do(peers[1].Node.Idx, "open", 400, func() (interface{}, error) {
			ctx, cancel := OpCtx(10 * time.Minute)
			defer cancel()
			return peers[1].DB.Open(ctx, r.addr, nil)
		})
		if !oop.Done || oop.Err != nil {
			panic(abortPanic{fmt.Sprint(oop.Err)})
		}
		r.r = oop.Val.(iface.Store)
		dbs = append(dbs, r)
	}
	honest := map[string]bool{}
	var captured [][]byte
	k.W.OnPublish = func(src int, topic string, data []byte) {
		if src != adv.Node.Idx && len(data) > 50 && len(captured) < 16 {
			captured = append(captured, append([]byte(nil), data...))
		}
	}
	wseq := 0
	write := func(st iface.Store, node int) string {
		wseq++
		val := fmt.Sprintf("w%d.%d", node, wseq)
		op := k.Do(node, "write "+val, 20, func() (interface{}, error) {
			ctx, cancel := OpCtx(time.Minute)
			defer cancel()
			return c09Write(ctx, st, val)
		})
		if !op.Done || op.Err != nil {
			k.Failf("C12/write-error", "honest write failed: %v", op.Err)
		}
		for _, e := range LogValues(st) {
			honest[e.GetHash().String()] = true
		}
		return val
	}
	for i, m := 0, k.C.Range(1, 4); i < m; i++ {
		d := dbs[k.C.Intn(ndb)]
		write(d.w, peers[0].Node.Idx)
		k.Steps(k.C.Intn(8))
	}
	k.Settle(60*time.Second, 2500, nil)
	for _, d := range dbs {
		adv.Engage(peers[1], d.r)
	}
	check := func(where string) {
		// whatever W's own logs hold was written by the honest writer (a write may have been
		// announced and replicated before the harness got to record it)
		for _, d := range dbs {
			for _, e := range LogValues(d.w) {
				honest[e.GetHash().String()] = true
			}
		}
		for _, d := range dbs {
			for _, e := range LogValues(d.r) {
				if !honest[e.GetHash().String()] {
					k.Failf("C12/state-changed", "%s: R's log of %s holds an entry no honest writer wrote: %s", where, short(d.addr), EntryName(e))
				}
			}
			switch st := d.r.(type) {
			case iface.KeyValueStore:
				if want, got := ReplayLWW(LogValues(st)), KVState(st); !EqMap(want, got) {
					k.Failf("C12/view-differs", "%s: R's view %s is not the replay of its log %s", where, MapStr(got), MapStr(want))
				}
			}
		}
	}
	k.Invariant = func() { check("step") }
	classes := map[string]bool{}
	routes := map[string]bool{}
	n := k.C.Range(3, 10)
	if Tier == "thorough" {
		n = k.C.Range(3, 24)
	}
	for i := 0; i < n; i++ {
		d := dbs[k.C.Intn(ndb)]
		class, payload := c12Payload(k, d.addr, captured)
		route := []string{"topic", "direct"}[k.C.Intn(2)]
		classes[class] = true
		routes[route] = true
		k.W.Stat("malformed:" + class)
		k.W.Stat("malformed-route:" + route)
		k.W.mu.Lock()
		k.W.tr("malformed %s via %s: %.80q", class, route, payload)
		k.W.mu.Unlock()
		send := func(payload []byte) {
			if route == "topic" {
				adv.PublishRaw(d.addr, payload)
			} else {
				adv.PublishRaw(PairTopic(adv.Node, peers[1].Node), payload)
			}
		}
		send(payload)
		if class == "real-head-then-readdressed-copy" || k.C.Chance(1, 4) {
			// a second payload right behind the first, on the same route: it is decoded while
			// whatever the first one started is still under way
			class2, payload2 := c12Payload(k, d.addr, captured)
			if class == "real-head-then-readdressed-copy" && k.C.Chance(2, 3) {
				class2 = "json-shapes"
				payload2 = []byte(fmt.Sprintf([]string{`{"address":"%s","heads":[null]}`, `{"address":"%s","heads":[{"hash":{"/":"bafyreigdmqpykrgxyaxtlafqpqhzrb7qy2rh75nldvfd4tucqmqqme3bxu"}}]}`}[k.C.Intn(2)], d.addr))
			}
			classes[class2] = true
			k.W.Stat("malformed:" + class2)
			k.W.Stat("malformed-back-to-back")
			k.W.mu.Lock()
			k.W.tr("malformed %s via %s right behind: %.80q", class2, route, payload2)
			k.W.mu.Unlock()
			send(payload2)
		}
		k.Steps(k.C.Range(2, 12))
		if k.C.Chance(1, 4) {
			write(d.w, peers[0].Node.Idx)
		}
		if k.C.Chance(1, 3) {
			td := d
			for _, x := range dbs {
				// a database nobody has written to yet: its first announcement names no predecessor
				if len(LogValues(x.w)) == 0 && k.C.Chance(1, 2) {
					td = x
				}
			}
			c12Twin(k, adv, peers, td.addr, td.w, td.r, honest)
		}
	}
	k.Settle(30*time.Second, 1500, nil)
	check("after-payloads")
	// the replication status is part of a replica's state: W is the only writer, so no
	// database of R can have been told of more entries than W's log of it holds
	for _, d := range dbs {
		if m, n := d.r.ReplicationStatus().GetMax(), len(LogValues(d.w)); m > n {
			k.Failf("C12/state-changed", "after the hostile payloads R reports a replication maximum of %d (progress %d) for %s, whose only writer has written %d entries", m, d.r.ReplicationStatus().GetProgress(), short(d.addr), n)
		}
	}
	// a valid message sent afterwards is handled, for each of R's databases
	for _, d := range dbs {
		val := write(d.w, peers[0].Node.Idx)
		ok := false
		for j := 0; j < 600 && !ok; j++ {
			k.Step()
			ok = strings.Contains(strings.Join(LogNames(d.r), " "), val)
		}
		if !ok {
			k.Settle(90*time.Second, 2000, nil)
			ok = strings.Contains(strings.Join(LogNames(d.r), " "), val)
		}
		if !ok {
			rs, _ := ReplStats(d.r)
			k.Failf("C12/later-valid-message-not-handled", "after %d malformed payloads, W's new entry %s on %s did not reach R within the liveness budget; replicator %+v pending=%v", n, val, short(d.addr), rs, k.PendingDesc())
		}
	}
	k.Notes["classes"] = len(classes)
	k.Notes["payloads"] = n
	k.Notes["nontrivial"] = n >= 3 && len(classes) >= 3 && len(routes) == 2
	for _, p := range peers {
		k.StopPeer(p)
	}
}

// c12Twin: W writes; before its announcement is delivered the hostile peer sends a corrupted
// twin of it (same claimed hash, one payload byte changed) on the topic or on the direct
// channel; both reach R in the same quantum, so that their handlers run concurrently. The
// twin must be discarded and the real entry must still get to R - before any later write
// could bring it along as an ancestor.
func c12Twin(k *K, adv *Adversary, peers []*Peer, addr string, w, r iface.Store, honest map[string]bool) {
	wIdx, rIdx := peers[0].Node.Idx, peers[1].Node.Idx
	val := fmt.Sprintf("twin%d", k.W.step)
	op := k.Go(wIdx, "write "+val, func() (interface{}, error) {
		ctx, cancel := OpCtx(time.Minute)
		defer cancel()
		return c09Write(ctx, w, val)
	})
	k.Wait()
	if !k.IsDone(op) || op.Err != nil {
		return
	}
	for _, e := range LogValues(w) {
		honest[e.GetHash().String()] = true
	}
	var real []byte
	k.W.mu.Lock()
	for _, p := range k.W.pending {
		if p.kind == pkMsg && p.src == wIdx && p.dst == rIdx && p.topic == addr {
			real = append([]byte(nil), p.data...)
		}
	}
	k.W.mu.Unlock()
	if real == nil {
		return
	}
	var msg map[string]interface{}
	if err := json.Unmarshal(real, &msg); err != nil {
		return
	}
	heads, _ := msg["heads"].([]interface{})
	if len(heads) == 0 {
		return
	}
	h, _ := heads[0].(map[string]interface{})
	pl, _ := h["payload"].(string)
	if len(pl) < 4 {
		return
	}
	i := k.C.Intn(len(pl))
	c := byte('A')
	if pl[i] == c {
		c = 'B'
	}
	if hs, ok := h["hash"].(map[string]interface{}); ok && len(LogValues(w)) > 1 && k.C.Chance(1, 2) {
		// the content as it was signed, under the address of another entry of the same log
		for _, e := range LogValues(w) {
			if o := e.GetHash().String(); o != hs["/"] {
				h["hash"] = map[string]interface{}{"/": o}
				break
			}
		}
	} else {
		h["payload"] = pl[:i] + string(c) + pl[i+1:]
	}
	twin, _ := json.Marshal(msg)
	routeSet := []string{"topic", "direct", "direct-back-to-back"}
	if len(LogValues(w)) == 1 {
		// the announced head is the first entry of its log (it names no predecessor): a
		// payload that is given up half-way, carrying links, may come right before it
		routeSet = append(routeSet, "direct-links-then-real", "direct-links-then-real", "direct-links-then-real")
	}
	route := routeSet[k.C.Intn(len(routeSet))]
	copies := k.C.Range(1, 2)
	if route == "direct-links-then-real" {
		k.W.mu.Lock()
		var keep []*Pend
		for _, p := range k.W.pending {
			if p.kind == pkMsg && p.src == wIdx && p.dst == rIdx && p.topic == addr {
				k.W.tr("drop %s", p)
				k.W.stat("drop")
				continue
			}
			keep = append(keep, p)
		}
		k.W.pending = keep
		k.W.mu.Unlock()
		// same head with links added and a field of the wrong type behind them (decoding stops
		// there), or the linked head under an address R does not hold
		var lm map[string]interface{}
		_ = json.Unmarshal(real, &lm)
		lh, _ := lm["heads"].([]interface{})[0].(map[string]interface{})
		lh["next"] = []interface{}{lh["hash"]}
		lh["refs"] = []interface{}{lh["hash"]}
		if k.C.Chance(1, 2) {
			lh["v"] = "2"
		} else {
			lm["address"] = "/orbitdb/bafyreib2u7nzfrzwkdtkgrzifidkmwqzqzmbeo3ebvcxhpqgtyoqxkjzja/nobody-has-this"
		}
		linked, _ := json.Marshal(lm)
		pair := PairTopic(adv.Node, peers[1].Node)
		for j := 0; j < copies; j++ {
			adv.PublishRaw(pair, linked)
		}
		adv.PublishRaw(pair, real)
	} else if route == "direct-back-to-back" {
		// W's own announcement is lost; the hostile peer relays the genuine bytes on its direct
		// channel with R, with a broken payload right behind them: two payloads waiting on
		// the same channel at once
		k.W.mu.Lock()
		var keep []*Pend
		for _, p := range k.W.pending {
			if p.kind == pkMsg && p.src == wIdx && p.dst == rIdx && p.topic == addr {
				k.W.tr("drop %s", p)
				k.W.stat("drop")
				continue
			}
			keep = append(keep, p)
		}
		k.W.pending = keep
		k.W.mu.Unlock()
		pair := PairTopic(adv.Node, peers[1].Node)
		adv.PublishRaw(pair, real)
		broken := [][]byte{real[:len(real)/2], twin, []byte("{"), {}}[k.C.Intn(4)]
		for j := 0; j < copies; j++ {
			adv.PublishRaw(pair, broken)
		}
	} else {
		for j := 0; j < copies; j++ {
			if route == "topic" {
				adv.PublishRaw(addr, twin)
			} else {
				adv.PublishRaw(PairTopic(adv.Node, peers[1].Node), twin)
			}
		}
	}
	k.W.Stat("malformed:twin-of-fresh-announcement")
	saved := k.F
	k.F = FaultCfg{Burst: 1}
	k.Step()
	k.F = saved
	ok := false
	for j := 0; j < 400 && !ok; j++ {
		k.Step()
		ok = strings.Contains(strings.Join(LogNames(r), " "), val)
	}
	if !ok {
		k.Settle(90*time.Second, 2000, nil)
		ok = strings.Contains(strings.Join(LogNames(r), " "), val)
	}
	if !ok {
		rs, _ := ReplStats(r)
		k.Failf("C12/valid-message-lost-next-to-malformed", "W's entry %s on %s, announced while a corrupted copy of the same announcement arrived via %s, did not reach R within the liveness budget; replicator %+v pending=%v", val, short(addr), route, rs, k.PendingDesc())
	}
}

func c12Payload(k *K, addr string, captured [][]byte) (string, []byte) {
	real := func() []byte {
		if len(captured) == 0 {
			return []byte(`{"address":"` + addr + `","heads":[]}`)
		}
		return append([]byte(nil), captured[k.C.Intn(len(captured))]...)
	}
	switch k.C.Intn(11) {
	case 9:
		// a real announcement whose head is followed, in the same message, by a copy of it
		// under the address of another block (write access and signature hold, the hash does
		// not match): the message is refused half-way through
		var msg map[string]interface{}
		if err := json.Unmarshal(real(), &msg); err == nil {
			if heads, _ := msg["heads"].([]interface{}); len(heads) > 0 {
				if h, _ := heads[0].(map[string]interface{}); h != nil {
					twin := map[string]interface{}{}
					for f, v := range h {
						twin[f] = v
					}
					twin["hash"] = map[string]interface{}{"/": "bafyreigdmqpykrgxyaxtlafqpqhzrb7qy2rh75nldvfd4tucqmqqme3bxu"}
					msg["heads"] = []interface{}{h, twin}
					b, _ := json.Marshal(msg)
					return "real-head-then-readdressed-copy", b
				}
			}
		}
		return "empty", []byte{}
	case 0:
		n := k.C.Range(0, 300)
		b := make([]byte, n)
		for i := range b {
			b[i] = byte(k.C.Intn(256))
		}
		return "random-bytes", b
	case 1:
		forms := []string{
			`{"address":"%s","heads":null}`, `{"address":"%s","heads":[]}`, `{"address":"%s","heads":[null]}`, `{"address":"%s","heads":[null,null]}`,
			`{"address":"%s","heads":"x"}`, `{"address":"%s","heads":[1,2]}`, `{"address":"%s","heads":[{}]}`, `{"address":"%s","heads":{}}`, `{"address":"%s"}`,
			`{"address":"%s","heads":[{"hash":null}]}`, `{"address":"%s","heads":[[]]}`, `null`, `[]`, `""`, `{}`, `{"heads":[{"identity":null,"clock":null}]}`,
			`{"address":"%s","heads":[{"hash":{"/":"bafyreigdmqpykrgxyaxtlafqpqhzrb7qy2rh75nldvfd4tucqmqqme3bxu"}}]}`,
		}
		f := forms[k.C.Intn(len(forms))]
		if strings.Contains(f, "%s") {
			f = fmt.Sprintf(f, addr)
		}
		return "json-shapes", []byte(f)
	case 2, 3:
		// a real head with one field removed or nulled
		var msg map[string]interface{}
		if err := json.Unmarshal(real(), &msg); err != nil {
			return "json-shapes", []byte(`{"heads":[null]}`)
		}
		heads, _ := msg["heads"].([]interface{})
		if len(heads) == 0 {
			return "json-shapes", []byte(`{"address":"` + addr + `","heads":[{}]}`)
		}
		h, _ := heads[0].(map[string]interface{})
		fields := []string{"identity", "clock", "hash", "key", "sig", "next", "id", "payload", "v", "refs"}
		f := fields[k.C.Intn(len(fields))]
		if k.C.Chance(1, 2) {
			delete(h, f)
		} else {
			h[f] = nil
		}
		if k.C.Chance(1, 4) {
			if id, ok := h["identity"].(map[string]interface{}); ok {
				sub := []string{"id", "publicKey", "signatures", "type"}[k.C.Intn(4)]
				delete(id, sub)
			}
		}
		msg["address"] = addr
		b, _ := json.Marshal(msg)
		return "head-without-" + f, b
	case 4, 5:
		b := real()
		if len(b) == 0 {
			return "random-bytes", b
		}
		switch k.C.Intn(5) {
		case 0:
			for j, m := 0, k.C.Range(1, 4); j < m; j++ {
				b[k.C.Intn(len(b))] ^= byte(1 << k.C.Intn(8))
			}
			return "mutate-flip", b
		case 1:
			i := k.C.Intn(len(b))
			j := i + k.C.Intn(min(40, len(b)-i)+1)
			return "mutate-delete", append(b[:i:i], b[j:]...)
		case 2:
			o := real()
			i, j := k.C.Intn(len(b)), k.C.Intn(len(o))
			return "mutate-splice", append(b[:i:i], o[j:]...)
		case 3:
			return "mutate-truncate", b[:k.C.Intn(len(b))]
		default:
			return "mutate-duplicate", append(b, b...)
		}
	case 6:
		d := k.C.Range(100, 3000)
		return "deep-nesting", []byte(`{"address":"` + addr + `","heads":` + strings.Repeat("[", d) + strings.Repeat("]", d) + `}`)
	case 8:
		// a genuine announcement of one database under the address of another (or of the
		// same: then it is just a relay)
		var msg map[string]interface{}
		if err := json.Unmarshal(real(), &msg); err == nil {
			msg["address"] = addr
			b, _ := json.Marshal(msg)
			return "cross-addressed", b
		}
		return "empty", []byte{}
	case 7:
		var msg map[string]interface{}
		if err := json.Unmarshal(real(), &msg); err == nil {
			msg["address"] = []interface{}{"/orbitdb/x", 1, nil}[k.C.Intn(3)]
			b, _ := json.Marshal(msg)
			return "wrong-address", b
		}
		return "wrong-address", []byte(`{"address":5,"heads":[]}`)
	default:
		return "empty", []byte{}
	}
}
