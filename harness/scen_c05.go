package sim

import (
	"berty.tech/go-ipfs-log/entry"
	"berty.tech/go-orbit-db/stores/operation"
	"context"
	"fmt"
	cid "github.com/ipfs/go-cid"
	"sort"
	"sync"
	"time"

	"berty.tech/go-orbit-db/iface"
	"berty.tech/go-orbit-db/stores"
	"github.com/libp2p/go-libp2p/p2p/host/eventbus"
)

func init() {
	Register(&Scenario{Prop: "C05", Name: "crash-prefixes", Run: scenC05, SoftParks: true, Weight: 3,
		Rule: "node T with 0-2 feeder peers, one database (type drawn per run); 3-10 (thorough 3-24) writes on T (single, or bursts of 2-3 concurrent writers released one persistence step at a time while replication goes on) and on feeders replicated into T under reorder/dup/delay, optionally a clean restart of T mid-history (one in three of them without Load: the application writes on the reopened store as it is, and loads later or never); every acknowledgement (write call returned; EventReplicated received) is stamped with T's persistence-effect count; then EVERY prefix of T's effect log (block puts, cache puts, keystore puts) is materialised as a durable image and recovered in isolation (offline block store) by NewOrbitDB + Open + Load(-1); oracle per prefix: recovered log contains every entry acknowledged at or before the prefix, only entries really written, is closed under next, visible state equals LWW replay of the recovered log, identity equals the pre-crash one once the first NewOrbitDB had returned, and a new write succeeds; one evaluation = one history with all its prefixes; non-trivial = >=1 prefix strictly between two acknowledgements and (with feeders) >=1 replicated batch acknowledged; a third of the reopenings without a load do call Load and give it up at once (context already cancelled) before they write"})
}

type c05ack struct {
	hashes []string
	effAt  int
	kind   string
}

func scenC05(k *K) {
	types := []string{"keyvalue", "eventlog", "docstore"}
	typ := types[k.C.Intn(3)]
	n := k.C.Range(1, 3)
	c := k.NewCluster(ClusterCfg{N: n, Type: typ})
	T := c.Peers[0].Node
	identityAt := -1 // effect count when the first NewOrbitDB had returned: keys are on disk from here on
	for i, e := range T.Disk.Effects {
		if e.Kind == "ks-put" {
			identityAt = i + 1
		}
	}
	preID := c.Peers[0].DB.Identity().ID
	createdAt := len(T.Disk.Effects)
	f := BenignCfg()
	if k.C.Chance(2, 3) {
		f.Reorder, f.ServeAny = 3, 3
	}
	if k.C.Chance(1, 2) {
		f.Dup = 1
	}
	k.F = f
	var acks []c05ack
	watch := func() {
		sub, err := c.Peers[0].DB.EventBus().Subscribe(new(stores.EventReplicated), eventbus.BufSize(1024))
		if err != nil {
			panic(abortPanic{err.Error()})
		}
		inc := c.Peers[0].Inc
		go func() {
			defer sub.Close()
			for {
				select {
				case e := <-sub.Out():
					ev := e.(stores.EventReplicated)
					var hs []string
					for _, en := range ev.Entries {
						hs = append(hs, en.GetHash().String())
					}
					k.W.mu.Lock()
					acks = append(acks, c05ack{hashes: hs, effAt: len(T.Disk.Effects), kind: "replicated"})
					k.W.mu.Unlock()
				case <-inc.Ctx.Done():
					return
				}
			}
		}()
	}
	watch()
	nops := k.C.Range(3, 10)
	if Tier == "thorough" {
		nops = k.C.Range(3, 24)
	}
	for i := 0; i < nops; i++ {
		switch k.C.Weighted([]int{8, 1, 2, 2}) {
		case 3:
			// concurrent writers on T, stopped between their persistence steps while replication
			// from the feeders goes on; each one is acknowledged when its own call returns
			for _, wr := range c.WriteBurst(0, k.C.Range(2, 3), k.C.Chance(3, 4)) {
				k.W.mu.Lock()
				acks = append(acks, c05ack{hashes: []string{wr.Hash}, effAt: wr.EffAt, kind: "write"})
				k.W.mu.Unlock()
			}
		case 0:
			node := k.C.Intn(n)
			if wr := c.RandomWrite(node); wr != nil && node == 0 {
				k.W.mu.Lock()
				acks = append(acks, c05ack{hashes: []string{wr.Hash}, effAt: wr.EffAt, kind: "write"})
				k.W.mu.Unlock()
			}
		case 1:
			if k.opsInFlightOn(0) == 0 {
				c.Down(0, false)
				k.Steps(k.C.Intn(3))
				if k.C.Chance(1, 3) {
					// the application reopens the database and writes without loading it first
					if err := c.UpWithoutLoad(0); err != nil {
						k.Failf("C05/restart-load-error", "clean restart of T failed: %v", err)
					}
					watch()
					if k.C.Chance(1, 3) {
						// the application does call Load, and gives it up at once (its context is
						// over before the cached heads have been fetched): whatever the call
						// says, nothing of the history is in memory, and the writes that follow
						// must not cost what is on the disk
						st := c.Stores[0]
						k.Do(0, "load given up at once", 100, func() (interface{}, error) {
							ctx, cancel := context.WithCancel(context.Background())
							cancel()
							return nil, st.Load(WithOfflineReads(ctx), -1)
						})
						k.W.Stat("load-given-up-before-write-on-reopened-store")
					}
					for j, m := 0, k.C.Range(1, 2); j < m; j++ {
						if wr := c.RandomWrite(0); wr != nil {
							k.W.mu.Lock()
							acks = append(acks, c05ack{hashes: []string{wr.Hash}, effAt: wr.EffAt, kind: "write"})
							k.W.mu.Unlock()
						}
					}
					if k.C.Chance(1, 2) {
						st := c.Stores[0]
						// a late load, without a limit or (1 in 3) with a small one: what the
						// limit cuts out of the log in memory stays on the disk
						lim := -1
						if k.C.Chance(1, 3) {
							lim = k.C.Range(1, 3)
						}
						k.Do(0, fmt.Sprintf("load %d (late)", lim), 400, func() (interface{}, error) {
							ctx, cancel := OpCtx(10 * time.Minute)
							defer cancel()
							return nil, st.Load(WithOfflineReads(ctx), lim)
						})
						if lim > 0 {
							k.W.Stat("late-load-with-a-limit")
							if wr := c.RandomWrite(0); wr != nil {
								k.W.mu.Lock()
								acks = append(acks, c05ack{hashes: []string{wr.Hash}, effAt: wr.EffAt, kind: "write"})
								k.W.mu.Unlock()
							}
						}
					}
				} else {
					if err := c.Up(0); err != nil {
						k.Failf("C05/restart-load-error", "clean restart of T failed: %v", err)
					}
					watch()
				}
				k.W.Stat("clean-restart-of-T")
			}
		case 2:
			k.Steps(k.C.Intn(10))
		}
		k.Steps(k.C.Intn(6))
	}
	k.Settle(60*time.Second, 2500, c.AllIdle)
	// universe of really written entries
	universe := map[string]bool{}
	for _, wr := range c.Writes {
		universe[wr.Hash] = true
	}
	for h := range c.Maybe {
		universe[h] = true
	}
	k.W.mu.Lock()
	effects := len(T.Disk.Effects)
	ackList := append([]c05ack(nil), acks...)
	k.W.mu.Unlock()
	sort.SliceStable(ackList, func(i, j int) bool { return ackList[i].effAt < ackList[j].effAt })
	// quiesce the live world before recovery runs (they share the bubble, not the network)
	c.CloseAll()
	k.Settle(30*time.Second, 500, nil)
	k.F = BenignCfg()

	// which prefixes: all (thorough) or a spread that always includes the ack boundaries
	want := map[int]bool{}
	if Tier == "thorough" || effects <= 48 {
		for p := 0; p <= effects; p++ {
			want[p] = true
		}
	} else {
		for _, a := range ackList {
			for d := -1; d <= 1; d++ {
				if p := a.effAt + d; p >= 0 && p <= effects {
					want[p] = true
				}
			}
		}
		for len(want) < 48 {
			want[k.C.Intn(effects+1)] = true
		}
		want[0], want[effects] = true, true
	}
	var prefixes []int
	for p := range want {
		prefixes = append(prefixes, p)
	}
	sort.Ints(prefixes)
	between, replAcks := 0, 0
	for _, a := range ackList {
		if a.kind == "replicated" {
			replAcks++
		}
	}
	for _, p := range prefixes {
		var must []string
		nacked := 0
		for _, a := range ackList {
			if a.effAt <= p {
				must = append(must, a.hashes...)
				nacked++
			}
		}
		if nacked > 0 && nacked < len(ackList) {
			between++
		}
		c05Recover(k, c, T, p, must, universe, identityAt, createdAt, preID)
	}
	k.Notes["effects"] = effects
	k.Notes["prefixes_checked"] = len(prefixes)
	k.Notes["acks"] = len(ackList)
	k.Notes["replicated_acks"] = replAcks
	k.Notes["exhaustive_prefixes"] = len(prefixes) == effects+1
	k.Notes["nontrivial"] = between > 0 && (n == 1 || replAcks > 0)
}

// c05Recover materialises the durable image after `p` effects and recovers it in isolation.
func c05Recover(k *K, c *Cluster, T *Node, p int, must []string, universe map[string]bool, identityAt, createdAt int, preID string) {
	img := T.Disk.FromPrefix(p)
	rn := k.W.AddNodeWithDisk(T.Idx, img)
	k.W.Stat("crash-prefix-recovered")
	rp, err := k.StartPeer(rn, c.PeerOpts...)
	if err != nil {
		k.Failf("C05/recover/new-instance-failed", "prefix %d: NewOrbitDB on the durable image failed: %v", p, err)
	}
	rp.Inc.SetOffline(true)
	defer func() {
		op := k.StopPeer(rp)
		k.Wait()
		for j := 0; j < 50 && !k.IsDone(op); j++ {
			k.Step()
		}
		k.W.Detach(rp.Inc)
	}()
	if identityAt >= 0 && p >= identityAt && rp.DB.Identity().ID != preID {
		k.Failf("C05/recover/identity-changed", "prefix %d (keys persisted at effect %d): identity after restart %s differs from %s", p, identityAt, rp.DB.Identity().ID[:16], preID[:16])
	}
	op := k.Do(rn.Idx, fmt.Sprintf("recover-open@%d", p), 200, func() (interface{}, error) {
		ctx, cancel := OpCtx(2 * time.Minute)
		defer cancel()
		return rp.DB.Open(ctx, c.Addr, c.createOpts(0))
	})
	if !op.Done {
		k.Failf("C05/recover/open-hang", "prefix %d: Open did not return", p)
	}
	if op.Err != nil {
		if len(must) > 0 || p >= createdAt {
			k.Failf("C05/recover/open-failed", "prefix %d (database created at effect %d, %d acknowledged entries): Open failed: %v", p, createdAt, len(must), op.Err)
		}
		return
	}
	st := op.Val.(iface.Store)
	lop := k.Do(rn.Idx, fmt.Sprintf("recover-load@%d", p), 200, func() (interface{}, error) {
		ctx, cancel := OpCtx(2 * time.Minute)
		defer cancel()
		return nil, st.Load(ctx, -1)
	})
	if !lop.Done {
		k.Failf("C05/recover/load-hang", "prefix %d: Load(-1) did not return", p)
	}
	have := LogHashSet(st)
	if lop.Err != nil && len(must) > 0 {
		k.Failf("C05/recover/load-failed", "prefix %d: Load(-1) failed with %d acknowledged entries on disk: %v", p, len(must), lop.Err)
	}
	for _, h := range must {
		if !have[h] {
			k.Failf("C05/recover/acked-entry-lost", "prefix %d of %d effects: acknowledged entry %s is missing after Open+Load(-1); recovered %d entries: %v (load err: %v)", p, len(T.Disk.Effects), c.nameOf(h), len(have), LogNames(st), lop.Err)
		}
	}
	for h := range have {
		if !universe[h] {
			k.Failf("C05/recover/phantom-entry", "prefix %d: recovered log contains an entry that was never written: %s", p, h)
		}
	}
	for _, e := range LogValues(st) {
		for _, nx := range e.GetNext() {
			if !have[nx.String()] {
				k.Failf("C05/recover/not-closed", "prefix %d: recovered log has %s but not its predecessor %s", p, EntryName(e), c.nameOf(nx.String()))
			}
		}
	}
	switch st.(type) {
	case iface.KeyValueStore, iface.DocumentStore:
		want := ReplayLWW(LogValues(st))
		var got map[string]string
		if kv, ok := st.(iface.KeyValueStore); ok {
			got = KVState(kv)
		} else {
			got, _ = docState(st.(iface.DocumentStore))
			for key, v := range want {
				want[key] = v
			}
		}
		if !EqMap(want, got) {
			k.Failf("C05/recover/state-mismatch", "prefix %d: recovered state %s differs from LWW replay of the recovered log %s", p, MapStr(got), MapStr(want))
		}
	}
	// the peer can still write
	if p >= createdAt {
		wop := k.Do(rn.Idx, "recover-write", 20, func() (interface{}, error) {
			ctx, cancel := OpCtx(time.Minute)
			defer cancel()
			return c09Write(ctx, st, fmt.Sprintf("post-crash-%d", p))
		})
		if !wop.Done || wop.Err != nil {
			k.Failf("C05/recover/cannot-write", "prefix %d: a write on the recovered store failed: done=%v err=%v", p, wop.Done, wop.Err)
		}
	}
}

func init() {
	Register(&Scenario{Prop: "C05", Name: "restart-with-refused-ancestor", Run: scenC05Refused, SoftParks: true, Weight: 1,
		Rule: "writer W, replica R and a second authorised writer C that misbehaves: besides 1-4 honest writes by W, C publishes 1-3 valid entries of its own whose next or refs name an entry that every replica refuses (written under W's id with C's keys, or written for another log); R replicates (every EventReplicated is an acknowledgement), W and R may write on top; then R is stopped (cleanly, or by a crash once the world is at rest), restarted on its directory and loaded; oracle: every entry R had acknowledged (own writes, replicated batches) is in the recovered log, no refused entry is, and a new write succeeds; non-trivial = R had acknowledged at least one entry of C whose ancestry holds a refused entry"})
}

func scenC05Refused(k *K) {
	c, must, refused, tainted := refusedAncestorHistory(k, "C05")
	c.Down(1, k.C.Chance(1, 2))
	if err := c.Up(1); err != nil {
		k.Failf("C05/restart-load-error", "restart of R failed: %v", err)
	}
	R := c.Stores[1]
	have := LogHashSet(R)
	for h := range must {
		if !have[h] {
			k.Failf("C05/recover/acked-entry-lost", "after the restart R lacks %s, which it had acknowledged (its own write, or reported as replicated); %d entries of the misbehaving writer with a refused entry in their ancestry had been merged; recovered %d entries: %v", c.nameOf(h), tainted, len(have), LogNames(R))
		}
	}
	for h := range refused {
		if have[h] {
			k.Failf("C05/recover/phantom-entry", "after the restart R holds an entry every replica must refuse (it was named by a valid entry of an authorised writer)")
		}
	}
	if wr := c.RandomWrite(1); wr == nil {
		k.W.Stat("post-restart-write-refused")
	}
	k.Notes["tainted_merged"] = tainted
	k.Notes["nontrivial"] = tainted > 0
	c.CloseAll()
}

// refusedAncestorHistory builds, on replica R (node 1) of a two-replica cluster, a log in which
// valid entries of a misbehaving authorised writer name (in next or refs) entries that every
// replica refuses. Returns the cluster, what R acknowledged, the refused hashes and how many
// entries with a refused entry in their ancestry R merged; the world is at rest.
func refusedAncestorHistory(k *K, prop string) (*Cluster, map[string]bool, map[string]bool, int) {
	adv := k.NewAdversary()
	typ := []string{"keyvalue", "eventlog"}[k.C.Intn(2)]
	c := k.NewCluster(ClusterCfg{N: 2, Type: typ, Writers: []int{0, 1}, ExtraIDs: []string{adv.Own.ID}})
	R := c.Stores[1]
	adv.Engage(c.Peers[1], R)
	acked := map[string]bool{}
	refused := map[string]bool{}
	var mu sync.Mutex
	sub, err := c.Peers[1].DB.EventBus().Subscribe(new(stores.EventReplicated), eventbus.BufSize(1024))
	if err != nil {
		panic(abortPanic{err.Error()})
	}
	inc := c.Peers[1].Inc
	go func() {
		defer sub.Close()
		for {
			select {
			case e := <-sub.Out():
				mu.Lock()
				for _, en := range e.(stores.EventReplicated).Entries {
					acked[en.GetHash().String()] = true
				}
				mu.Unlock()
			case <-inc.Ctx.Done():
				return
			}
		}
	}()
	tainted := 0
	advClock := 0 // the misbehaving writer's Lamport times grow: two entries with one writer and one time have no defined order
	for i, m := 0, k.C.Range(1, 4); i < m; i++ {
		c.RandomWrite(0)
		k.Steps(k.C.Intn(6))
	}
	for a, m := 0, k.C.Range(1, 3); a < m; a++ {
		maxT := 0
		var heads []cid.Cid
		for _, e := range LogValues(c.Stores[0]) {
			if t := e.GetClock().GetTime(); t > maxT {
				maxT = t
			}
		}
		for _, h := range c.Stores[0].OpLog().Heads().Slice() {
			heads = append(heads, h.GetHash())
		}
		if maxT < advClock {
			maxT = advClock
		}
		advClock = maxT + 2
		key := "z"
		payload, _ := operation.NewOperation(&key, "PUT", []byte(fmt.Sprintf("bad-%d", a))).Marshal()
		if typ == "eventlog" {
			payload, _ = operation.NewOperation(nil, "ADD", []byte(fmt.Sprintf("bad-%d", a))).Marshal()
		}
		// the entry everybody refuses
		var bad *entry.Entry
		if k.C.Chance(1, 2) {
			ident, priv := adv.ForgedIdentity("copied-id", c.Peers[0].DB.Identity())
			bad, err = adv.Craft("copied-id", ident, priv, c.Addr, payload, nil, maxT+1)
		} else {
			bad, err = adv.Craft("own", adv.Own, nil, c.Addr+"-other", payload, nil, maxT+1)
		}
		if err != nil {
			continue
		}
		refused[bad.Hash.String()] = true
		nx, rf := append([]cid.Cid{bad.Hash}, heads...), []cid.Cid{}
		if k.C.Chance(1, 2) {
			nx, rf = heads, []cid.Cid{bad.Hash}
		}
		child, err := adv.CraftRefs("own", adv.Own, nil, c.Addr, payload, nx, rf, maxT+2)
		if err != nil {
			continue
		}
		adv.Deliver([]string{"topic", "direct", "sync"}[k.C.Intn(3)], c.Peers[1], R, child)
		k.Steps(k.C.Range(5, 30))
		if LogHashSet(R)[child.Hash.String()] {
			tainted++
		}
		if k.C.Chance(1, 2) {
			if wr := c.RandomWrite(1); wr != nil {
				mu.Lock()
				acked[wr.Hash] = true
				mu.Unlock()
			}
		}
		if k.C.Chance(1, 2) {
			c.RandomWrite(0)
		}
		k.Steps(k.C.Intn(10))
	}
	k.Settle(90*time.Second, 3000, nil)
	mu.Lock()
	must := map[string]bool{}
	for h := range acked {
		must[h] = true
	}
	mu.Unlock()
	for h := range refused {
		if LogHashSet(R)[h] {
			k.Failf(prop+"/phantom-entry-before-restart", "before the restart: R holds an entry every replica must refuse")
		}
	}
	return c, must, refused, tainted
}
