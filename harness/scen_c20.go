package sim

import (
	"bytes"
	"context"
	"crypto/sha256"
	"encoding/binary"
	"errors"
	"fmt"
	"runtime"
	"sort"
	"strings"
	"sync"
	"time"

	"berty.tech/go-orbit-db/iface"
	"berty.tech/go-orbit-db/pubsub"
	"berty.tech/go-orbit-db/pubsub/directchannel"
	"berty.tech/go-orbit-db/pubsub/oneonone"
	"berty.tech/go-orbit-db/pubsub/pubsubcoreapi"
	coreiface "github.com/ipfs/kubo/core/coreiface"
	"github.com/ipfs/kubo/core/coreiface/options"
	"github.com/libp2p/go-libp2p/core/event"
	"github.com/libp2p/go-libp2p/core/peer"
	"github.com/libp2p/go-libp2p/p2p/host/eventbus"
	"go.uber.org/zap"
)

func init() {
	Register(&Scenario{Prop: "C20", Name: "pubsubcoreapi-scripted", Run: scenC20CoreAPI, Weight: 1,
		Rule: "the real pubsubcoreapi adapter over a scripted PubSub API: a drawn sequence of 3-12 membership snapshots over 5 peers (without self) returned on successive polls of the virtual clock, and a drawn interleaving of 3-20 messages from self and from remote peers with payload sizes from {0,1,17,4 KiB,128 KiB,1 MiB}; the consumer of both channels is paced by the kernel (including stalls beyond the 32/128-slot buffers); oracle: per peer the join/leave events are exactly the set differences of consecutive snapshots, in order; no message from self is delivered; every remote payload is delivered once, byte-identical, in order; non-trivial = >=2 membership changes and >=2 remote and >=1 self message; in one run of three one membership poll fails (the watcher may stop or carry on, what it reported must remain a beginning of what the snapshots imply); in half the runs without a failed poll a second watcher of the same topic name starts once the membership has stopped changing (the first one still running, or cancelled): it must be told of every peer that is on the topic, each once, and of nothing else"})
	Register(&Scenario{Prop: "C20", Name: "oneonone-pair", Run: scenC20OneOnOne, Weight: 1,
		Rule: "two real oneonone adapters over the simulated pubsub (delivery delayed and interleaved by the kernel, no loss); both sides Connect (1-3 callers each, each with a context of its own; in half the runs every caller of one side leaves and new ones connect right behind; in a third one end goes away altogether and, once the other has noticed, a caller there connects and sends while the absent end comes back 3-30 steps later), then 2-12 Sends from both sides interleaved with kernel steps, payload sizes from {0,1,100,64 KiB}; oracle: both ends subscribed to one and the same channel topic; each side's adapter emits exactly the payloads the other side sent (multiset, byte-identical), attributed to the other peer, and none of its own, nor what a third peer published on the pair's topic (a third of the runs); non-trivial = both sides sent >=1 payload"})
	Register(&Scenario{Prop: "C20", Name: "directchannel-streams", Run: scenC20Direct, Weight: 1,
		Rule: "two real directchannel adapters over the stub libp2p host; 3-10 Sends with payload sizes from {0,1,100,64 KiB,1 MiB,4 MiB-1,4 MiB,4 MiB+1} travelling in kernel-chosen chunks (1 byte .. whole frame, so short reads happen), streams interleaved; faults drawn per stream: none, reset mid-frame, truncation mid-frame, all bytes delivered but the sender's Close reports an error; plus hostile raw frames on the victim's handler (length prefix 0, exact, larger than the body, 4 MiB+1, 2^32, 2^63, 2^64-1, unterminated varint, empty stream); oracle: a frame within the limit that arrived completely produces exactly one event with the sender as peer and identical bytes; oversized, reset, truncated and malformed frames produce no event and never crash the process; frames sent afterwards are delivered; non-trivial = >=1 complete frame after >=1 refused or broken one; one step in five (outside floods) is two Send calls on the same channel at the same time, each frame having to arrive as it was sent"})
}

// ---------------- pubsubcoreapi over a scripted API ----------------

type scriptedAPI struct {
	coreiface.CoreAPI
	ps *scriptedPS
}

func (a *scriptedAPI) PubSub() coreiface.PubSubAPI { return a.ps }

type scriptedPS struct {
	mu        sync.Mutex
	snapshots [][]peer.ID
	poll      int
	q         []*Msg
	notify    chan struct{}
	published [][]byte
	failAt    int // Peers fails once, at this call (0 = never)
	calls     int
}

func (p *scriptedPS) Ls(context.Context) ([]string, error) { return nil, nil }
func (p *scriptedPS) Peers(context.Context, ...options.PubSubPeersOption) ([]peer.ID, error) {
	p.mu.Lock()
	defer p.mu.Unlock()
	p.calls++
	if p.failAt > 0 && p.calls == p.failAt {
		return nil, errors.New("sim: membership poll failed")
	}
	i := p.poll
	if i >= len(p.snapshots) {
		i = len(p.snapshots) - 1
	}
	p.poll++
	return append([]peer.ID(nil), p.snapshots[i]...), nil
}
func (p *scriptedPS) Publish(_ context.Context, _ string, d []byte) error {
	p.mu.Lock()
	p.published = append(p.published, d)
	p.mu.Unlock()
	return nil
}
func (p *scriptedPS) Subscribe(context.Context, string, ...options.PubSubSubscribeOption) (coreiface.PubSubSubscription, error) {
	return &scriptedSub{p}, nil
}

type scriptedSub struct{ p *scriptedPS }

func (s *scriptedSub) Close() error { return nil }
func (s *scriptedSub) Next(ctx context.Context) (coreiface.PubSubMessage, error) {
	for {
		s.p.mu.Lock()
		if len(s.p.q) > 0 {
			m := s.p.q[0]
			s.p.q = s.p.q[1:]
			s.p.mu.Unlock()
			return m, nil
		}
		s.p.mu.Unlock()
		select {
		case <-s.p.notify:
		case <-ctx.Done():
			return nil, ctx.Err()
		}
	}
}

func genPayload(k *K, sizes []int, tag string) []byte {
	n := sizes[k.C.Intn(len(sizes))]
	b := make([]byte, n)
	seed := sha256.Sum256([]byte(tag))
	for i := range b {
		b[i] = seed[i%32] ^ byte(i>>5)
	}
	copy(b, tag)
	return b
}

func scenC20CoreAPI(k *K) {
	self := PeerIDFor(0)
	var others []peer.ID
	for i := 1; i <= 5; i++ {
		others = append(others, PeerIDFor(i))
	}
	ps := &scriptedPS{notify: make(chan struct{}, 1)}
	nsnap := k.C.Range(3, 12)
	for i := 0; i < nsnap; i++ {
		var s []peer.ID
		for _, o := range others {
			if k.C.Chance(1, 2) {
				s = append(s, o)
			}
		}
		// snapshot order as the API would return it: arbitrary
		for _, j := range k.C.Perm(len(s)) {
			_ = j
		}
		ps.snapshots = append(ps.snapshots, s)
	}
	if k.C.Chance(1, 3) {
		// one membership poll fails (the node's API is briefly unavailable)
		ps.failAt = k.C.Range(2, nsnap+1)
		k.W.Stat("membership-poll-failed")
	}
	ctx, cancel := context.WithCancel(context.Background())
	k.cleanups = append(k.cleanups, cancel)
	adapter := pubsubcoreapi.NewPubSub(&scriptedAPI{ps: ps}, self, time.Second, nil, nil)
	topic, err := adapter.TopicSubscribe(ctx, "topic")
	if err != nil {
		panic(abortPanic{err.Error()})
	}
	chPeers, err := topic.WatchPeers(ctx)
	if err != nil {
		panic(abortPanic{err.Error()})
	}
	chMsgs, err := topic.WatchMessages(ctx)
	if err != nil {
		panic(abortPanic{err.Error()})
	}
	// expected membership events per peer
	expected := map[peer.ID][]string{}
	changes := 0
	prev := map[peer.ID]bool{}
	for _, s := range ps.snapshots {
		cur := map[peer.ID]bool{}
		for _, p := range s {
			cur[p] = true
		}
		for _, o := range others {
			if cur[o] && !prev[o] {
				expected[o] = append(expected[o], "join")
				changes++
			}
			if !cur[o] && prev[o] {
				expected[o] = append(expected[o], "leave")
				changes++
			}
		}
		prev = cur
	}
	got := map[peer.ID][]string{}
	drainPeers := func(max int) {
		for i := 0; i < max; i++ {
			select {
			case e, ok := <-chPeers:
				if !ok {
					return
				}
				switch ev := e.(type) {
				case *iface.EventPubSubJoin:
					got[ev.Peer] = append(got[ev.Peer], "join")
				case *iface.EventPubSubLeave:
					got[ev.Peer] = append(got[ev.Peer], "leave")
				}
			default:
				return
			}
		}
	}
	// messages
	nmsg := k.C.Range(3, 20)
	sizes := []int{0, 1, 17, 4096, 128 * 1024, 1 << 20}
	var wantMsgs [][]byte
	var gotMsgs [][]byte
	remote, selfMsgs := 0, 0
	sent := 0
	drainMsgs := func(max int) {
		for i := 0; i < max; i++ {
			select {
			case m, ok := <-chMsgs:
				if !ok {
					return
				}
				gotMsgs = append(gotMsgs, m.Content)
			default:
				return
			}
		}
	}
	stall := 0
	for step := 0; step < 400 && (sent < nmsg || (ps.poll <= nsnap+1 && (ps.failAt == 0 || step < 120))); step++ {
		k.Wait()
		switch k.C.Weighted([]int{4, 3, 3, 2, 1}) {
		case 0:
			if sent < nmsg {
				from := self
				if k.C.Chance(3, 4) {
					from = others[k.C.Intn(len(others))]
				}
				pl := genPayload(k, sizes, fmt.Sprintf("m%d:", sent))
				ps.mu.Lock()
				ps.q = append(ps.q, &Msg{from: from, data: pl, topic: "topic"})
				ps.mu.Unlock()
				select {
				case ps.notify <- struct{}{}:
				default:
				}
				if from == self {
					selfMsgs++
				} else {
					remote++
					wantMsgs = append(wantMsgs, pl)
				}
				sent++
			}
		case 1:
			k.Tick(time.Duration(300+k.C.Intn(900)) * time.Millisecond)
		case 2:
			if stall > 0 {
				stall--
			} else {
				drainMsgs(k.C.Range(1, 4))
			}
		case 3:
			if stall > 0 {
				stall--
			} else {
				drainPeers(k.C.Range(1, 4))
			}
		case 4:
			stall = k.C.Range(2, 30)
			k.W.Stat("consumer-stall")
		}
	}
	for i := 0; i < 40; i++ {
		k.Tick(1100 * time.Millisecond)
		drainPeers(100)
		drainMsgs(1000)
	}
	for _, o := range others {
		// after a failed poll the watcher may stop or carry on from what it knew: what it
		// reported must still be a beginning of what the snapshots imply
		if ps.failAt > 0 && len(got[o]) <= len(expected[o]) && EqStrs(got[o], expected[o][:len(got[o])]) {
			continue
		}
		if !EqStrs(got[o], expected[o]) {
			k.Failf("C20/coreapi/membership", "peer %d: snapshots imply events %v, the adapter reported %v (failed poll: call %d)", indexOfPeer(others, o)+1, expected[o], got[o], ps.failAt)
		}
	}
	if len(gotMsgs) != len(wantMsgs) {
		k.Failf("C20/coreapi/message-count", "%d remote and %d self messages were received by the node; the adapter delivered %d", remote, selfMsgs, len(gotMsgs))
	}
	for i := range wantMsgs {
		if !bytes.Equal(wantMsgs[i], gotMsgs[i]) {
			k.Failf("C20/coreapi/message-content", "message #%d (%d bytes) was delivered as %d different bytes", i, len(wantMsgs[i]), len(gotMsgs[i]))
		}
	}
	// a second watcher of the same topic (a store of the instance closed and opened again: the
	// instance keeps one topic object per name) starts once the first is established; it is
	// told of every peer that is on the topic, each once, and of nothing else (the membership
	// does not change any more: the last snapshot is returned from here on)
	if ps.failAt == 0 && k.C.Chance(1, 2) {
		k.W.Stat("second-watcher-on-the-same-topic")
		ctx2, cancel2 := context.WithCancel(context.Background())
		k.cleanups = append(k.cleanups, cancel2)
		topic2, err := adapter.TopicSubscribe(ctx2, "topic")
		if err != nil {
			panic(abortPanic{err.Error()})
		}
		if k.C.Chance(1, 2) {
			cancel() // the first watcher is gone by then (its store was closed)
			k.Wait()
		}
		ch2, err := topic2.WatchPeers(ctx2)
		if err != nil {
			panic(abortPanic{err.Error()})
		}
		got2 := map[peer.ID][]string{}
		for i := 0; i < 5; i++ {
			k.Tick(1100 * time.Millisecond)
			for more := true; more; {
				select {
				case e, ok := <-ch2:
					if !ok {
						more = false
						break
					}
					switch ev := e.(type) {
					case *iface.EventPubSubJoin:
						got2[ev.Peer] = append(got2[ev.Peer], "join")
					case *iface.EventPubSubLeave:
						got2[ev.Peer] = append(got2[ev.Peer], "leave")
					}
				default:
					more = false
				}
			}
		}
		for _, o := range others {
			var want []string
			if prev[o] {
				want = []string{"join"}
			}
			if !EqStrs(got2[o], want) {
				k.Failf("C20/coreapi/second-watcher", "peer %d (on the topic at the end: %v): a second watcher of the topic was told %v, expected %v", indexOfPeer(others, o)+1, prev[o], got2[o], want)
			}
		}
		cancel2()
	}
	k.Notes["membership_changes"] = changes
	k.Notes["remote_msgs"] = remote
	k.Notes["nontrivial"] = changes >= 2 && remote >= 2 && selfMsgs >= 1
	cancel()
}

func indexOfPeer(ps []peer.ID, p peer.ID) int {
	for i, x := range ps {
		if x == p {
			return i
		}
	}
	return -1
}

// ---------------- oneonone ----------------

type payloadSink struct {
	mu  sync.Mutex
	got []iface.EventPubSubPayload
}

func watchPayloads(ctx context.Context, bus event.Bus) *payloadSink {
	s := &payloadSink{}
	sub, err := bus.Subscribe(new(iface.EventPubSubPayload), eventbus.BufSize(4096))
	if err != nil {
		panic(abortPanic{err.Error()})
	}
	go func() {
		defer sub.Close()
		for {
			select {
			case e := <-sub.Out():
				s.mu.Lock()
				s.got = append(s.got, e.(iface.EventPubSubPayload))
				s.mu.Unlock()
			case <-ctx.Done():
				return
			}
		}
	}()
	return s
}

func (s *payloadSink) snapshot() []iface.EventPubSubPayload {
	s.mu.Lock()
	defer s.mu.Unlock()
	return append([]iface.EventPubSubPayload(nil), s.got...)
}

func scenC20OneOnOne(k *K) {
	ctx, cancel := context.WithCancel(context.Background())
	k.cleanups = append(k.cleanups, cancel)
	var nodes [2]*Node
	var chans [2]iface.DirectChannel
	var sinks [2]*payloadSink
	for i := 0; i < 2; i++ {
		nodes[i] = k.W.AddNode()
		inc := nodes[i].Boot()
		bus := eventbus.NewBus()
		em, err := pubsub.NewPayloadEmitter(bus)
		if err != nil {
			panic(abortPanic{err.Error()})
		}
		sinks[i] = watchPayloads(ctx, bus)
		ch, err := oneonone.NewChannelFactory(inc.API())(ctx, em, nil)
		if err != nil {
			panic(abortPanic{err.Error()})
		}
		chans[i] = ch
	}
	// the third peer of a third of the runs (it is around from the start and hears who
	// subscribes to what)
	var stranger *Adversary
	if k.C.Chance(1, 3) {
		stranger = k.NewAdversary()
	}
	k.F = FaultCfg{Deliver: 5, Refresh: 4, Tick: 2, Reorder: 1}
	// several stores of one instance see the same peer join at once: 1-3 Connect calls for the
	// same peer start together on each side (and one more may come once the pair is up); every
	// caller has a context of its own (a store's), which it may cancel later (the store closes)
	var users [2][]context.CancelFunc
	userCtx := func(side int) context.Context {
		uctx, ucancel := context.WithCancel(ctx)
		users[side] = append(users[side], ucancel)
		return uctx
	}
	var extra []*Op
	u := userCtx(0)
	c0 := k.Go(0, "connect 0->1", func() (interface{}, error) { return nil, chans[0].Connect(u, nodes[1].ID) })
	for j, m := 0, k.C.Intn(3); j < m; j++ {
		u := userCtx(0)
		extra = append(extra, k.Go(0, "connect 0->1 (again)", func() (interface{}, error) { return nil, chans[0].Connect(u, nodes[1].ID) }))
	}
	k.Steps(k.C.Intn(6))
	u1 := userCtx(1)
	c1 := k.Go(1, "connect 1->0", func() (interface{}, error) { return nil, chans[1].Connect(u1, nodes[0].ID) })
	for j, m := 0, k.C.Intn(3); j < m; j++ {
		u := userCtx(1)
		extra = append(extra, k.Go(1, "connect 1->0 (again)", func() (interface{}, error) { return nil, chans[1].Connect(u, nodes[0].ID) }))
	}
	allConnected := func() bool {
		for _, o := range append([]*Op{c0, c1}, extra...) {
			if !k.IsDone(o) {
				return false
			}
		}
		return true
	}
	for j := 0; j < 400 && !allConnected(); j++ {
		k.Step()
	}
	if !allConnected() || c0.Err != nil || c1.Err != nil {
		k.Failf("C20/oneonone/connect", "Connect did not complete on both sides: %v %v pending=%v", c0.Err, c1.Err, k.PendingDesc())
	}
	for _, o := range extra {
		if o.Err != nil {
			k.Failf("C20/oneonone/connect", "a concurrent Connect for the same peer failed: %v", o.Err)
		}
	}
	if k.C.Chance(1, 3) {
		side := k.C.Intn(2)
		u := userCtx(side)
		if op := k.Do(side, "connect (once more)", 50, func() (interface{}, error) { return nil, chans[side].Connect(u, nodes[1-side].ID) }); !op.Done || op.Err != nil {
			k.Failf("C20/oneonone/connect", "Connect on an established pair failed: done=%v err=%v", op.Done, op.Err)
		}
	}
	// churn: on one side every caller goes away (the channel to the peer is given up) and 2-3
	// new ones connect right behind, 0-6 scheduling points apart, while the old channel is
	// still winding down; nothing is sent meanwhile
	if k.C.Chance(1, 2) {
		side := k.C.Intn(2)
		gaps := []int{k.C.Intn(7), k.C.Intn(7), k.C.Intn(7)}
		nnew := k.C.Range(2, 3)
		var ctxs []context.Context
		for j := 0; j < nnew; j++ {
			ctxs = append(ctxs, userCtx(side))
		}
		old := users[side][:len(users[side])-nnew]
		done := make([]chan error, nnew)
		cop := k.Go(side, "callers leave, new ones connect", func() (interface{}, error) {
			for _, c := range old {
				c()
			}
			for j := 0; j < nnew; j++ {
				for g := 0; g < gaps[j]; g++ {
					runtime.Gosched()
				}
				j := j
				done[j] = make(chan error, 1)
				go func() { done[j] <- chans[side].Connect(ctxs[j], nodes[1-side].ID) }()
			}
			for j := 0; j < nnew; j++ {
				if err := <-done[j]; err != nil {
					return nil, err
				}
			}
			return nil, nil
		})
		for j := 0; j < 400 && !k.IsDone(cop); j++ {
			k.Step()
		}
		if !k.IsDone(cop) || cop.Err != nil {
			k.Failf("C20/oneonone/connect", "Connect after all earlier callers had left failed: done=%v err=%v pending=%v", k.IsDone(cop), cop.Err, k.PendingDesc())
		}
		k.Settle(10*time.Second, 300, nil)
		k.W.Stat("oneonone-callers-left-and-new-ones-connected")
	}
	sizes := []int{0, 1, 100, 64 * 1024}
	var sent [2][][]byte
	// one end goes away altogether (every caller of it leaves: its stores are closed) while the
	// other keeps its channel; once the other end has noticed, one of its callers connects and
	// sends (a store exchanging heads with a peer it sees again); the absent end comes back
	// 3-30 kernel steps later. A Connect that reports success means the peer is listening:
	// what is sent after it arrives
	if k.C.Chance(1, 3) {
		x := k.C.Intn(2)
		a := 1 - x
		for _, c := range users[x] {
			c()
		}
		users[x] = nil
		gone := func() bool {
			k.W.mu.Lock()
			defer k.W.mu.Unlock()
			if len(nodes[x].Inc.subs) != 0 {
				return false
			}
			for t := range nodes[a].Inc.subs {
				if nodes[a].Inc.view[t][nodes[x].Idx] {
					return false
				}
			}
			return true
		}
		for j := 0; j < 600 && !gone(); j++ {
			k.Step()
		}
		if gone() {
			pl := genPayload(k, sizes, fmt.Sprintf("s%d.back:", a))
			ua := userCtx(a)
			aop := k.Go(a, "connect then send while the other end is away", func() (interface{}, error) {
				if err := chans[a].Connect(ua, nodes[x].ID); err != nil {
					return nil, err
				}
				return nil, chans[a].Send(ctx, nodes[x].ID, pl)
			})
			k.Steps(k.C.Range(3, 30))
			ux := userCtx(x)
			xop := k.Go(x, "the other end comes back", func() (interface{}, error) { return nil, chans[x].Connect(ux, nodes[a].ID) })
			for j := 0; j < 800 && !(k.IsDone(aop) && k.IsDone(xop)); j++ {
				k.Step()
			}
			if !k.IsDone(aop) || !k.IsDone(xop) || aop.Err != nil || xop.Err != nil {
				k.Failf("C20/oneonone/connect", "one end left and came back while the other connected and sent: done=%v/%v err=%v/%v pending=%v", k.IsDone(aop), k.IsDone(xop), aop.Err, xop.Err, k.PendingDesc())
			}
			sent[a] = append(sent[a], pl)
			k.Settle(10*time.Second, 300, nil)
			k.W.Stat("oneonone-one-end-away-while-the-other-connects-and-sends")
		} else {
			k.W.Stat("oneonone-one-end-away(not noticed)")
		}
	}
	// one and the same topic on both ends
	k.W.mu.Lock()
	var t0, t1 []string
	for t := range nodes[0].Inc.subs {
		t0 = append(t0, t)
	}
	for t := range nodes[1].Inc.subs {
		t1 = append(t1, t)
	}
	k.W.mu.Unlock()
	sort.Strings(t0)
	sort.Strings(t1)
	if len(t0) != 1 || !EqStrs(t0, t1) {
		k.Failf("C20/oneonone/channel-name", "the two ends subscribed to %v and %v", t0, t1)
	}
	n := k.C.Range(2, 12)
	// in a third of the runs a third peer publishes on the pair's topic in between (anybody
	// can publish on a topic whose name is made of two public peer ids): neither end reports
	// such a payload as sent by the other end
	if stranger != nil && len(t0) == 1 {
		stranger.JoinTopic(t0[0])
		for j := 0; j < 300 && !(stranger.Sees(t0[0], nodes[0]) && stranger.Sees(t0[0], nodes[1])); j++ {
			k.Step()
		}
		if !(stranger.Sees(t0[0], nodes[0]) && stranger.Sees(t0[0], nodes[1])) {
			k.W.Stat("oneonone-third-peer-sees-nobody")
		}
	}
	for i := 0; i < n; i++ {
		if stranger != nil && len(t0) == 1 && k.C.Chance(1, 3) {
			stranger.PublishRaw(t0[0], genPayload(k, sizes, fmt.Sprintf("stranger.%d:", i)))
			k.W.Stat("oneonone-third-peer-publishes-on-pair-topic")
			k.Steps(k.C.Intn(5))
		}
		side := k.C.Intn(2)
		pl := genPayload(k, sizes, fmt.Sprintf("s%d.%d:", side, i))
		sent[side] = append(sent[side], pl)
		k.Do(side, fmt.Sprintf("send %d len=%d", side, len(pl)), 5, func() (interface{}, error) {
			return nil, chans[side].Send(ctx, nodes[1-side].ID, pl)
		})
		k.Steps(k.C.Intn(5))
	}
	k.Settle(20*time.Second, 1000, nil)
	for side := 0; side < 2; side++ {
		got := sinks[side].snapshot()
		want := sent[1-side]
		var gotB [][]byte
		for _, e := range got {
			if e.Peer != nodes[1-side].ID {
				k.Failf("C20/oneonone/attribution", "side %d got a payload attributed to %s, expected the other end", side, e.Peer)
			}
			gotB = append(gotB, e.Payload)
		}
		if ms := multisetDiff(want, gotB); ms != "" {
			k.Failf("C20/oneonone/delivery", "side %d: other end sent %d payloads, adapter emitted %d: %s", side, len(want), len(gotB), ms)
		}
	}
	k.Notes["sent0"] = len(sent[0])
	k.Notes["sent1"] = len(sent[1])
	k.Notes["nontrivial"] = len(sent[0]) > 0 && len(sent[1]) > 0
	for i := 0; i < 2; i++ {
		_ = chans[i].Close()
	}
	cancel()
}

func multisetDiff(want, got [][]byte) string {
	count := map[[32]byte]int{}
	for _, w := range want {
		count[sha256.Sum256(w)]++
	}
	for _, g := range got {
		count[sha256.Sum256(g)]--
	}
	missing, extra := 0, 0
	for _, c := range count {
		if c > 0 {
			missing += c
		}
		if c < 0 {
			extra -= c
		}
	}
	if missing == 0 && extra == 0 {
		return ""
	}
	return fmt.Sprintf("%d missing or altered, %d unexpected or duplicated", missing, extra)
}

// ---------------- directchannel over the stub host ----------------

func scenC20Direct(k *K) { scenDirect(k, "C20", false) }

func scenDirect(k *K, prop string, forceFlood bool) {
	ctx, cancel := context.WithCancel(context.Background())
	k.cleanups = append(k.cleanups, cancel)
	var nodes [2]*Node
	var incs [2]*Inc
	var chans [2]iface.DirectChannel
	var sinks [2]*payloadSink
	for i := 0; i < 2; i++ {
		nodes[i] = k.W.AddNode()
		incs[i] = nodes[i].Boot()
		bus := eventbus.NewBus()
		em, err := pubsub.NewPayloadEmitter(bus)
		if err != nil {
			panic(abortPanic{err.Error()})
		}
		sinks[i] = watchPayloads(ctx, bus)
		ch, err := directchannel.InitDirectChannelFactory(zap.NewNop(), incs[i].Host())(ctx, em, nil)
		if err != nil {
			panic(abortPanic{err.Error()})
		}
		chans[i] = ch
	}
	hostile := k.W.AddNode()
	hinc := hostile.Boot()
	sizes := []int{0, 1, 100, 64 * 1024, 1 << 20, 4<<20 - 1, 4 << 20, 4<<20 + 1}
	type frame struct {
		to           int
		payload      []byte
		fault        string
		s            *SimStream
		hostileEmpty bool
	}
	var frames []*frame
	var expect [2][][]byte
	refused, completeAfter := 0, 0
	pump := func(budget int) {
		for i := 0; i < budget; i++ {
			k.Wait()
			act := k.activeStreams()
			if len(act) == 0 {
				return
			}
			k.bump()
			s := act[k.C.Intn(len(act))]
			var f *frame
			for _, fr := range frames {
				if fr.s == s {
					f = fr
				}
			}
			if f != nil && f.fault != "" && len(s.inflight) > 0 && k.C.Chance(1, 3) {
				if f.fault == "reset" {
					k.StreamReset(s)
				} else {
					k.StreamTruncate(s)
				}
				continue
			}
			max := []int{1, 2, 7, 100, 4096, 70000, 1 << 30}[k.C.Intn(7)]
			k.StreamChunk(s, max)
		}
	}
	n := k.C.Range(3, 10)
	flood := k.C.Chance(1, 3) || forceFlood // many small broken / hostile frames in a row, then valid ones
	if flood {
		n = k.C.Range(12, 48)
		sizes = []int{0, 1, 100, 4096}
		k.W.Stat("broken-frame-flood")
	}
	for i := 0; i < n; i++ {
		if (!flood && k.C.Chance(1, 4)) || (flood && i < n-3 && k.C.Chance(5, 6)) {
			// hostile raw frame on a victim's handler
			victim := k.C.Intn(2)
			if flood {
				victim = 0
			}
			s, err := k.RawStream(hinc, nodes[victim], directchannel.PROTOCOL)
			if err == nil {
				raw, desc := hostileFrame(k)
				closeIt := k.C.Chance(3, 4)
				if flood && k.C.Chance(1, 2) {
					// announced length within the limit, shorter body, then the stream ends
					body := bytes.Repeat([]byte("B"), k.C.Range(0, 50))
					lb := make([]byte, binary.MaxVarintLen64)
					raw = append(lb[:binary.PutUvarint(lb, uint64(len(body)+k.C.Range(1, 500)))], body...)
					desc, closeIt = "len-larger-than-body", true
				}
				s.WriteRaw(raw, closeIt)
				k.W.Stat("hostile-frame:" + desc)
				refused++
				fr := &frame{to: victim, s: s}
				if desc == "len0" {
					// a well-formed empty frame: it IS a payload from that (hostile) peer
					fr.hostileEmpty = true
				}
				frames = append(frames, fr)
			}
			pump(k.C.Intn(30))
			continue
		}
		from := k.C.Intn(2)
		if flood {
			from = 1 // everything goes to side 0
		}
		if !flood && k.C.Chance(1, 5) {
			// two Send calls on the same channel at the same time (two stores exchanging heads
			// with the same peer): each frame must arrive as it was sent
			before := len(k.W.streams)
			var ops []*Op
			var pls [][]byte
			for j := 0; j < 2; j++ {
				pl := genPayload(k, []int{1, 100, 4096, 64 * 1024}, fmt.Sprintf("d%d.%d.%d:", from, i, j))
				pls = append(pls, pl)
				ops = append(ops, k.Go(from, fmt.Sprintf("send len=%d (concurrent)", len(pl)), func() (interface{}, error) {
					return nil, chans[from].Send(ctx, nodes[1-from].ID, pl)
				}))
			}
			k.Wait()
			for j := 0; j < 20 && !(k.IsDone(ops[0]) && k.IsDone(ops[1])); j++ {
				pump(5)
			}
			for j, op := range ops {
				if !k.IsDone(op) || op.Err != nil {
					k.Failf(prop+"/direct/send-error", "concurrent Send of %d bytes failed: done=%v err=%v", len(pls[j]), k.IsDone(op), op.Err)
				}
			}
			k.W.mu.Lock()
			news := append([]*SimStream(nil), k.W.streams[before:]...)
			k.W.mu.Unlock()
			for j, pl := range pls {
				fr := &frame{to: 1 - from, payload: pl}
				if j < len(news) {
					fr.s = news[j]
				}
				frames = append(frames, fr)
			}
			k.W.Stat("concurrent-sends-on-one-channel")
			pump(k.C.Intn(40))
			continue
		}
		pl := genPayload(k, sizes, fmt.Sprintf("f%d.%d:", from, i))
		fault := ""
		if (k.C.Chance(1, 4) || (flood && i < n-3)) && len(pl) > 0 {
			fault = []string{"reset", "truncate"}[k.C.Intn(2)]
		}
		if fault == "" && k.C.Chance(1, 5) {
			// the connection is lost once the receiver has everything and before the sender's
			// Close returns: the frame counts as delivered, once
			k.W.mu.Lock()
			k.W.StreamCloseErrNext = 1
			k.W.mu.Unlock()
		}
		before := len(k.W.streams)
		op := k.Do(from, fmt.Sprintf("send len=%d fault=%s", len(pl), fault), 3, func() (interface{}, error) {
			return nil, chans[from].Send(ctx, nodes[1-from].ID, pl)
		})
		if !op.Done || op.Err != nil {
			k.Failf(prop+"/direct/send-error", "Send of %d bytes failed: done=%v err=%v", len(pl), op.Done, op.Err)
		}
		k.W.mu.Lock()
		k.W.StreamCloseErrNext = 0
		var st *SimStream
		if len(k.W.streams) > before {
			st = k.W.streams[before] // the first stream the call opened carries the frame
		}
		k.W.mu.Unlock()
		fr := &frame{to: 1 - from, payload: pl, fault: fault, s: st}
		frames = append(frames, fr)
		k.W.Stat(fmt.Sprintf("frame-size:%d", len(pl)))
		pump(k.C.Intn(40))
	}
	pump(200000)
	k.Wait()
	// which frames must have produced an event: complete (no fault fired) and within the limit
	for _, f := range frames {
		if f.payload == nil && f.s != nil && f.fault == "" && !strings.HasPrefix("", "x") {
			continue
		}
	}
	faultsFired := map[*SimStream]bool{}
	k.W.mu.Lock()
	for _, s := range k.W.streams {
		if s.reset || (s.eof && s.wclosed && len(s.inflight) == 0 && false) {
			faultsFired[s] = true
		}
	}
	k.W.mu.Unlock()
	seenBroken := false
	var hostileEmpties [2]int
	for _, f := range frames {
		if f.payload == nil { // hostile
			if f.hostileEmpty && !f.s.reset && !f.s.truncated() {
				hostileEmpties[f.to]++
			}
			seenBroken = true
			continue
		}
		broken := f.s == nil || f.s.reset || f.s.truncated()
		if len(f.payload) > directchannel.DelimitedReadMaxSize {
			broken = true
			refused++
		}
		if broken {
			seenBroken = true
			continue
		}
		expect[f.to] = append(expect[f.to], f.payload)
		if seenBroken {
			completeAfter++
		}
	}
	for side := 0; side < 2; side++ {
		got := sinks[side].snapshot()
		var gotB [][]byte
		fromHostile := 0
		for _, e := range got {
			if e.Peer == hostile.ID && len(e.Payload) == 0 {
				fromHostile++
				continue
			}
			if e.Peer != nodes[1-side].ID {
				k.Failf(prop+"/direct/attribution", "side %d got a %d-byte payload attributed to %s, which sent no such frame", side, len(e.Payload), e.Peer)
			}
			gotB = append(gotB, e.Payload)
		}
		if fromHostile != hostileEmpties[side] {
			k.Failf(prop+"/direct/delivery", "side %d: the third peer sent %d complete empty frames, %d events were attributed to it", side, hostileEmpties[side], fromHostile)
		}
		if ms := multisetDiff(expect[side], gotB); ms != "" {
			k.Failf(prop+"/direct/delivery", "side %d: %d complete frames within the limit were sent to it, the adapter emitted %d: %s", side, len(expect[side]), len(gotB), ms)
		}
	}
	k.Notes["frames"] = len(frames)
	k.Notes["refused_or_hostile"] = refused
	k.Notes["nontrivial"] = completeAfter >= 1
	for i := 0; i < 2; i++ {
		_ = chans[i].Close()
	}
	cancel()
}

func (s *SimStream) truncated() bool {
	s.w.mu.Lock()
	defer s.w.mu.Unlock()
	return s.trunc
}

func hostileFrame(k *K) ([]byte, string) {
	uv := func(x uint64) []byte {
		b := make([]byte, binary.MaxVarintLen64)
		return b[:binary.PutUvarint(b, x)]
	}
	body := bytes.Repeat([]byte("A"), k.C.Range(0, 200))
	switch k.C.Intn(9) {
	case 0:
		return uv(0), "len0"
	case 1:
		return append(uv(uint64(len(body)+k.C.Range(1, 1000))), body...), "len-larger-than-body"
	case 2:
		return append(uv(uint64(4<<20+1)), body...), "len-4MiB+1"
	case 3:
		return append(uv(1<<32), body...), "len-2^32"
	case 4:
		return append(uv(1<<63), body...), "len-2^63"
	case 5:
		return append(uv(^uint64(0)), body...), "len-2^64-1"
	case 6:
		return bytes.Repeat([]byte{0xff}, k.C.Range(1, 12)), "unterminated-varint"
	case 7:
		return nil, "empty-stream"
	default:
		return append(uv(uint64(1<<63+uint64(k.C.Intn(1000)))), body...), "len-just-over-2^63"
	}
}
