package sim

import (
	"bufio"
	"encoding/json"
	"fmt"
	"os"
	"path/filepath"
	"runtime"
	"runtime/debug"
	"strconv"
	"strings"
	"testing"
	"testing/cryptotest"
	"testing/synctest"
	"time"
)

// RunResult is one line of the worker's output.
type RunResult struct {
	Kind       string                 `json:"kind"` // begin | result | list
	Prop       string                 `json:"prop,omitempty"`
	Scen       string                 `json:"scen,omitempty"`
	Seed       uint64                 `json:"seed"`
	Violation  *Violation             `json:"violation,omitempty"`
	Aborted    string                 `json:"aborted,omitempty"`
	Leak       string                 `json:"leak,omitempty"`
	Choices    []int                  `json:"choices,omitempty"`
	Trace      []string               `json:"trace,omitempty"`
	Digest     string                 `json:"digest,omitempty"`
	Stats      map[string]int         `json:"stats,omitempty"`
	Steps      int                    `json:"steps,omitempty"`
	SimSeconds float64                `json:"sim_s,omitempty"`
	WallMs     float64                `json:"wall_ms,omitempty"`
	Notes      map[string]interface{} `json:"notes,omitempty"`
	NChoices   int                    `json:"nchoices,omitempty"`
	Obs        []string               `json:"obs,omitempty"`
	Scens      []string               `json:"scens,omitempty"`
	Rules      map[string]string      `json:"rules,omitempty"`
}

var simEpoch = time.Date(2000, 1, 1, 0, 0, 0, 0, time.UTC)

// runOne executes one simulated run inside a synctest bubble.
func runOne(t *testing.T, sc *Scenario, seed uint64, replay []int, wantTrace bool) (res RunResult) {
	res = RunResult{Kind: "result", Prop: sc.Prop, Scen: sc.Name, Seed: seed}
	start := time.Now()
	var ch *Chooser
	if replay != nil {
		ch = NewReplayChooser(replay)
	} else {
		ch = NewChooser(seed)
	}
	if cl := os.Getenv("VERIF_CHOICELOG"); cl != "" {
		// forensics for runs that kill the process: choices are appended to a file; the buffer
		// is flushed by the kernel at quiescent points only (see K.bump)
		f, err := os.Create(cl)
		if err == nil {
			bw := bufio.NewWriter(f)
			ch.Log = func(v int) { fmt.Fprintf(bw, "%d\n", v) }
			choiceLogFlush = func() { bw.Flush() }
			defer func() { bw.Flush(); f.Close(); choiceLogFlush = nil }()
		}
	}
	// no garbage collection while a run is in its bubble: with one P a collection cycle
	// preempts the running goroutine and schedules mark workers by real time, which reorders
	// the bubble's goroutines from one execution of a seed to the next (DESIGN §8, 27). The
	// heap is collected between runs instead.
	if !sc.NoBubble {
		runtime.GC()
		oldGC := debug.SetGCPercent(-1)
		defer debug.SetGCPercent(oldGC)
	}
	if yl := os.Getenv("VERIF_YIELDLOG"); yl != "" {
		if f, err := os.Create(yl); err == nil {
			bw := bufio.NewWriterSize(f, 1<<20)
			yieldDebug = func(kind string) {
				var pcs [8]uintptr
				m := runtime.Callers(4, pcs[:])
				fr := runtime.CallersFrames(pcs[:m])
				where := ""
				for i := 0; i < 4; i++ {
					f, more := fr.Next()
					where += fmt.Sprintf(" %s:%d", filepath.Base(f.Function), f.Line)
					if !more {
						break
					}
				}
				fmt.Fprintf(bw, "%s g%d%s\n", kind, verifGoid(), where)
			}
			defer func() { yieldDebug = nil; bw.Flush(); f.Close() }()
		}
	}
	if dl := os.Getenv("VERIF_DRAWLOG"); dl != "" {
		if f, err := os.Create(dl); err == nil {
			bw := bufio.NewWriter(f)
			drawDebug = func(pos, n, v int) {
				var pcs [12]uintptr
				m := runtime.Callers(3, pcs[:])
				fr := runtime.CallersFrames(pcs[:m])
				where := ""
				for i := 0; i < 9; i++ {
					f, more := fr.Next()
					where += fmt.Sprintf(" %s:%d", filepath.Base(f.Function), f.Line)
					if !more {
						break
					}
				}
				fmt.Fprintf(bw, "%d n=%d v=%d%s\n", pos, n, v, where)
			}
			defer func() { drawDebug = nil; bw.Flush(); f.Close() }()
		}
	}
	var k *K
	t.Run(fmt.Sprintf("%s/%d", sc.Name, seed), func(t *testing.T) {
		cryptotest.SetGlobalRandom(t, seed)
		defer func() {
			// synctest.Test panics when the bubble's root returns while goroutines stay
			// durably blocked: recorded as a leak, judged by the scenario (C18), never fatal.
			if r := recover(); r != nil {
				res.Leak = fmt.Sprint(r)
				if os.Getenv("VERIF_DEBUG_LEAK") != "" {
					buf := make([]byte, 1<<22)
					n := runtime.Stack(buf, true)
					fmt.Fprintf(os.Stderr, "LEAK seed=%d: %v\n%s\n", seed, r, buf[:n])
				}
			}
		}()
		if sc.NoBubble {
			k = NewK(ch)
			k.noBubble = true
			func() {
				defer func() {
					if r := recover(); r != nil {
						switch p := r.(type) {
						case violationPanic:
							v := p.v
							res.Violation = &v
						case abortPanic:
							res.Aborted = p.why
						default:
							res.Violation = &Violation{Signature: "panic/" + panicSite(), Detail: fmt.Sprintf("%v\n%s", r, debug.Stack())}
						}
					}
				}()
				sc.Run(k)
			}()
			for _, f := range k.cleanups {
				f()
			}
			return
		}
		synctest.Test(t, func(t *testing.T) {
			verifSetDet(true, seed^0x5bd1e995c3a7f11d)
			defer verifSetDet(false, 0)
			// swarm: in three quarters of the runs the goroutines of one node are also
			// interleaved between blocking points, at the inserted yield points
			// (the last mode yields only at the points right before a mutex acquisition, and
			// then for long: one goroutine sits between reading shared state and locking
			// while the others get through whole operations)
			ym := ch.Intn(5)
			every := []uint64{0, 400, 40, 6, 1 << 40}[ym]
			lockEvery := []uint64{0, 16, 6, 3, 3}[ym]
			if os.Getenv("VERIF_NOYIELD") != "" {
				every, lockEvery = 0, 0
			}
			// in scenarios that allow it, one run in three also lets the kernel stall a goroutine
			// right before a mutex acquisition for some kernel quanta
			var softEvery uint64
			if sc.SoftParks {
				softEvery = []uint64{0, 0, 0, 0, 6, 3}[ch.Intn(6)]
			}
			if os.Getenv("VERIF_NOYIELD") != "" {
				softEvery = 0
			}
			inKernel = true
			k = NewK(ch)
			k.W.LogObs = true
			SetSoftParks(k.W, softEvery)
			defer SetSoftParks(nil, 0)
			if softEvery > 0 {
				k.W.Stat("mode:kernel-stalls")
			}
			SetAutoYieldRate(seed, every, lockEvery)
			defer SetAutoYieldRate(0, 0, 0)
			defer UninstallHooks()
			func() {
				defer func() {
					if r := recover(); r != nil {
						switch p := r.(type) {
						case violationPanic:
							v := p.v
							res.Violation = &v
						case abortPanic:
							res.Aborted = p.why
						default:
							// a panic on the kernel goroutine that came from SUT code called
							// synchronously by the scenario
							res.Violation = &Violation{Signature: "panic/" + panicSite(), Detail: fmt.Sprintf("%v\n%s", r, debug.Stack())}
						}
					}
				}()
				sc.Run(k)
			}()
			res.SimSeconds = time.Since(simEpoch).Seconds()
			teardown(k)
		})
	})
	if k != nil && res.Violation == nil && res.Aborted == "" {
		for _, f := range k.PostRun {
			if v := f(); v != nil {
				res.Violation = v
				break
			}
		}
	}
	if k != nil {
		res.Digest = k.W.Digest()
		res.Stats = k.W.Stats
		res.Steps = k.W.step
		res.Notes = k.Notes
		if res.Stats != nil && autoYieldCount > 0 {
			res.Stats["seeded-goroutine-yields"] += int(autoYieldCount)
			res.Stats["runs-with-seeded-yields"]++
		}
		res.NChoices = len(ch.Rec)
		if res.Violation != nil || wantTrace {
			res.Choices = ch.Rec
			res.Trace = k.W.Trace
			if os.Getenv("VERIF_TRACE") == "2" {
				res.Obs = k.W.obs
			}
		}
	}
	res.WallMs = float64(time.Since(start).Microseconds()) / 1000
	return
}

// teardown unblocks everything so that the bubble can end: zombies and live peers are closed,
// pending wants fail, parked goroutines are released, timers are allowed to fire.
func teardown(k *K) {
	UninstallHooks()
	k.Invariant = nil
	w := k.W
	for round := 0; round < 6; round++ {
		kernelBlock(synctest.Wait)
		w.mu.Lock()
		var incs []*Inc
		for _, n := range w.Nodes {
			if n.Inc != nil {
				incs = append(incs, n.Inc)
			}
		}
		for _, i := range incs {
			w.detachLocked(i)
		}
		for _, p := range w.pending {
			if p.kind == pkWant {
				select {
				case p.done <- fmt.Errorf("sim: teardown"):
				default:
				}
			}
		}
		w.pending = nil
		w.closeAllStreams()
		parks := append(w.parks, w.soft...)
		w.parks, w.soft = nil, nil
		w.mu.Unlock()
		for _, p := range parks {
			close(p.ch)
		}
		for _, i := range incs {
			i.Cancel()
		}
		for _, f := range k.cleanups {
			f()
		}
		k.cleanups = nil
		kernelSleep(70 * time.Second)
	}
}

func panicSite() string {
	st := string(debug.Stack())
	for _, ln := range strings.Split(st, "\n") {
		ln = strings.TrimSpace(ln)
		if (strings.HasPrefix(ln, "berty.tech/go-orbit-db") || strings.HasPrefix(ln, "berty.tech/go-ipfs-log")) && strings.Contains(ln, "(") {
			if i := strings.LastIndex(ln, "("); i > 0 {
				ln = ln[:i]
			}
			return ln
		}
	}
	return "unknown"
}

// TestWorker is the worker entry point. Environment:
//
//	VERIF_PROP, VERIF_SCEN      property and scenario
//	VERIF_SEEDS=a:n             run seeds a..a+n-1 (search mode)
//	VERIF_REPLAY=file           JSON {seed, choices} (replay mode; VERIF_TRACE=1 to emit the trace)
//	VERIF_OUT=file              JSON lines are appended here
//	VERIF_LIST=1                list scenarios of VERIF_PROP
func TestWorker(t *testing.T) {
	prop := os.Getenv("VERIF_PROP")
	if prop == "" {
		t.Skip("worker entry point; driven by bin/check")
	}
	if tier := os.Getenv("VERIF_TIER"); tier != "" {
		Tier = tier
	}
	outPath := os.Getenv("VERIF_OUT")
	out := os.Stdout
	if outPath != "" {
		f, err := os.OpenFile(outPath, os.O_CREATE|os.O_WRONLY|os.O_APPEND, 0o644)
		if err != nil {
			t.Fatal(err)
		}
		defer f.Close()
		out = f
	}
	bw := bufio.NewWriter(out)
	emit := func(r RunResult) {
		b, _ := json.Marshal(r)
		bw.Write(b)
		bw.WriteByte('\n')
		bw.Flush()
	}
	warmupBegin = func() {
		emit(RunResult{Kind: "begin", Prop: prop, Scen: os.Getenv("VERIF_SCEN"), Seed: 0xfeedface, Aborted: "warmup"})
	}
	if os.Getenv("VERIF_LIST") != "" {
		var names []string
		for _, s := range ScenariosFor(prop) {
			names = append(names, fmt.Sprintf("%s:%d", s.Name, s.Weight))
		}
		rules := map[string]string{}
		for _, s := range ScenariosFor(prop) {
			rules[s.Name] = s.Rule
		}
		emit(RunResult{Kind: "list", Prop: prop, Scens: names, Rules: rules})
		return
	}
	sc := FindScenario(prop, os.Getenv("VERIF_SCEN"))
	if sc == nil {
		t.Fatalf("unknown scenario %s/%s", prop, os.Getenv("VERIF_SCEN"))
	}
	// canonical runtime: one P, no GC surprises in the middle of a step
	runtime.GOMAXPROCS(1)
	debug.SetGCPercent(-1) // collections happen only between runs (a stop-the-world reorders the run queue)
	startWatchdog()

	wantTrace := os.Getenv("VERIF_TRACE") != ""
	if rp := os.Getenv("VERIF_REPLAY"); rp != "" {
		data, err := os.ReadFile(rp)
		if err != nil {
			t.Fatal(err)
		}
		var rf struct {
			Seed    uint64 `json:"seed"`
			Choices []int  `json:"choices"`
			// an explicit empty list is a valid (all-benign) replay; null means search mode
		}
		if err := json.Unmarshal(data, &rf); err != nil {
			t.Fatal(err)
		}
		warmup(t, sc)
		emit(RunResult{Kind: "begin", Prop: prop, Scen: sc.Name, Seed: rf.Seed})
		kick()
		// choices == null means "search mode with this seed" (used to re-run a seed whose
		// original run killed the process before its choices could be reported)
		emit(runOne(t, sc, rf.Seed, rf.Choices, true))
		return
	}
	parts := strings.Split(os.Getenv("VERIF_SEEDS"), ":")
	if len(parts) != 2 {
		t.Fatalf("VERIF_SEEDS=a:n required")
	}
	a, _ := strconv.ParseUint(parts[0], 10, 64)
	n, _ := strconv.Atoi(parts[1])
	warmup(t, sc)
	for i := 0; i < n; i++ {
		seed := a + uint64(i)
		emit(RunResult{Kind: "begin", Prop: prop, Scen: sc.Name, Seed: seed})
		kick()
		emit(runOne(t, sc, seed, nil, wantTrace || (i == 0 && os.Getenv("VERIF_SAMPLE") != "")))
		runtime.GC()
		runtime.GC() // twice: sync.Pool contents survive one collection in the victim cache
	}
}

// warmup executes one discarded run: the cold first run of a process is an order of
// magnitude slower (page faults, lazy init) and was the only source of trace divergence in
// the feasibility probe.
func warmup(t *testing.T, sc *Scenario) {
	if os.Getenv("VERIF_NOWARMUP") != "" {
		return
	}
	kick()
	if warmupBegin != nil {
		warmupBegin()
	}
	runOne(t, sc, 0xfeedface, nil, false)
	runtime.GC()
	runtime.GC()
}

var warmupBegin func()

// ---- real-time watchdog (outside every bubble) ----

var lastKick = make(chan struct{}, 1)

func kick() {
	select {
	case lastKick <- struct{}{}:
	default:
	}
}

func startWatchdog() {
	limit := 120 * time.Second
	if v := os.Getenv("VERIF_WATCHDOG_S"); v != "" {
		if s, err := strconv.Atoi(v); err == nil {
			limit = time.Duration(s) * time.Second
		}
	}
	go func() {
		for {
			select {
			case <-lastKick:
			case <-time.After(limit):
				buf := make([]byte, 1<<22)
				n := runtime.Stack(buf, true)
				fmt.Fprintf(os.Stderr, "VERIF-WATCHDOG: run exceeded %v of real time\n%s\n", limit, buf[:n])
				os.Exit(97)
			}
		}
	}()
}
