package sim

import "sort"

// Tier is "quick" or "thorough" (from VERIF_TIER); scenarios scale their bounds with it.
var Tier = "quick"

type Scenario struct {
	Prop   string
	Name   string
	Run    func(k *K)
	Weight int    // share of the property's runs given to this scenario
	Rule   string // how cases are generated and what makes one non-trivial (evidence text)
	// NoBubble scenarios run on the real clock and the real file system (real leveldb under
	// cache and keystore); they are sequential and need no kernel scheduling.
	NoBubble bool
	// SoftParks scenarios only wait through kernel helpers that tolerate goroutines stalled by
	// the kernel (Do, Settle, WriteBurst): a third of their runs use such stalls.
	SoftParks bool
	// Enumerated scenarios take their case index from the seed instead of sampling.
	Cases func() int
}

var registry = map[string][]*Scenario{}

func Register(s *Scenario) { registry[s.Prop] = append(registry[s.Prop], s) }

func ScenariosFor(prop string) []*Scenario {
	ss := append([]*Scenario(nil), registry[prop]...)
	sort.Slice(ss, func(i, j int) bool { return ss[i].Name < ss[j].Name })
	return ss
}

func FindScenario(prop, name string) *Scenario {
	for _, s := range registry[prop] {
		if s.Name == name {
			return s
		}
	}
	return nil
}

func Props() []string {
	var ps []string
	for p := range registry {
		ps = append(ps, p)
	}
	sort.Strings(ps)
	return ps
}
