package sim

import (
	"context"
	"fmt"
	"os"
	"path/filepath"
	"sort"
	"strings"
	"time"

	orbitdb "berty.tech/go-orbit-db"
	"berty.tech/go-orbit-db/iface"
)

func init() {
	Register(&Scenario{Prop: "C05", Name: "real-disk-cycles", Run: scenRealDiskCycles, Weight: 1, NoBubble: true,
		Rule: "real cacheleveldown + default leveldb keystore on a temporary directory (outside the synctest bubble, real clock; the IPFS node stays the in-memory stub, so its blocks survive like a persistent repo): 1-3 databases, 2-5 cycles of {1-4 writes, clean close of the store or of the whole instance, NewOrbitDB on the same directory, Open, Load(-1)}; oracle per cycle: every acknowledged entry is back, nothing else, view equals LWW replay, identity unchanged, a new write succeeds; non-trivial = >=2 cycles with >=1 instance-level restart and >=3 entries"})
	Register(&Scenario{Prop: "C18", Name: "real-disk-drop", Run: scenRealDiskDrop, Weight: 1, NoBubble: true,
		Rule: "real cacheleveldown on a temporary directory: 2-3 databases with entries, Close (repeated) or Drop of one of them, then reopen everything: the dropped database reopens empty and its cache directory is gone, the siblings' directories (file names and sizes apart from leveldb's own LOG/LOCK churn) and contents are unchanged; closing twice and operating on the closed store returns errors, not panics; non-trivial = a Drop happened with >=1 sibling holding entries"})
}

func realPeer(k *K, n *Node, dir string) orbitdb.OrbitDB {
	inc := n.Boot()
	db, err := orbitdb.NewOrbitDB(context.Background(), inc.API(), &orbitdb.NewOrbitDBOptions{Directory: &dir})
	if err != nil {
		k.Failf("real-disk/new-instance", "NewOrbitDB on %s: %v", dir, err)
	}
	return db
}

func scenRealDiskCycles(k *K) {
	dir, err := os.MkdirTemp("", "verif-real-")
	if err != nil {
		panic(abortPanic{err.Error()})
	}
	k.cleanups = append(k.cleanups, func() { os.RemoveAll(dir) })
	n := k.W.AddNode()
	db := realPeer(k, n, dir)
	id := db.Identity().ID
	ndb := k.C.Range(1, 3)
	types := []string{"keyvalue", "eventlog", "docstore"}
	type rec struct {
		addr  string
		st    iface.Store
		acked map[string]bool
	}
	var dbs []*rec
	ctx := context.Background()
	for d := 0; d < ndb; d++ {
		st, err := db.Create(ctx, fmt.Sprintf("real%d", d), types[k.C.Intn(3)], nil)
		if err != nil {
			k.Failf("C05/real/create", "%v", err)
		}
		dbs = append(dbs, &rec{addr: st.Address().String(), st: st, acked: map[string]bool{}})
	}
	cycles := k.C.Range(2, 5)
	restarts, total := 0, 0
	wseq := 0
	for c := 0; c < cycles; c++ {
		for _, r := range dbs {
			for j, m := 0, k.C.Range(0, 4); j < m; j++ {
				wseq++
				op, err := c09Write(ctx, r.st, fmt.Sprintf("r%d", wseq))
				if err != nil {
					k.Failf("C05/real/write", "cycle %d: %v", c, err)
				}
				r.acked[op.GetEntry().GetHash().String()] = true
				total++
			}
		}
		whole := k.C.Chance(1, 2)
		if whole {
			restarts++
			if err := db.Close(); err != nil {
				k.Failf("C05/real/close", "%v", err)
			}
			k.W.Detach(n.Inc)
			db = realPeer(k, n, dir)
			if db.Identity().ID != id {
				k.Failf("C05/real/identity-changed", "identity after reopening %s: %s, before: %s", dir, db.Identity().ID[:16], id[:16])
			}
		} else {
			for _, r := range dbs {
				if err := r.st.Close(); err != nil {
					k.Failf("C05/real/close", "%v", err)
				}
				// a write on the closed store is either refused or durable
				wseq++
				if op, err := c09Write(ctx, r.st, fmt.Sprintf("r%d-after-close", wseq)); err == nil && op != nil {
					r.acked[op.GetEntry().GetHash().String()] = true
					total++
					k.W.Stat("write-acknowledged-on-closed-store")
				}
			}
		}
		for _, r := range dbs {
			st, err := db.Open(ctx, r.addr, nil)
			if err != nil {
				k.Failf("C05/real/reopen", "cycle %d (instance restart: %v): %v", c, whole, err)
			}
			lctx, cancel := context.WithTimeout(ctx, 20*time.Second)
			err = st.Load(lctx, -1)
			cancel()
			if err != nil {
				k.Failf("C05/real/load", "cycle %d: %v", c, err)
			}
			have := LogHashSet(st)
			for h := range r.acked {
				if !have[h] {
					k.Failf("C05/real/acked-entry-lost", "cycle %d (instance restart: %v): an acknowledged entry of %s is missing after close + reopen + Load(-1) on the real cache; %d of %d recovered", c, whole, short(r.addr), len(have), len(r.acked))
				}
			}
			if len(have) != len(r.acked) {
				k.Failf("C05/real/phantom-entry", "cycle %d: %d entries recovered, %d acknowledged", c, len(have), len(r.acked))
			}
			if kv, ok := st.(iface.KeyValueStore); ok {
				if want, got := ReplayLWW(LogValues(st)), KVState(kv); !EqMap(want, got) {
					k.Failf("C05/real/state", "cycle %d: view %s, replay %s", c, MapStr(got), MapStr(want))
				}
			}
			r.st = st
		}
	}
	k.W.mu.Lock()
	k.W.tr("real-disk cycles=%d restarts=%d entries=%d", cycles, restarts, total)
	k.W.mu.Unlock()
	k.Notes["cycles"] = cycles
	k.Notes["nontrivial"] = cycles >= 2 && restarts >= 1 && total >= 3
	_ = db.Close()
}

func dirListing(root string) []string {
	var out []string
	filepath.Walk(root, func(p string, info os.FileInfo, err error) error {
		if err != nil || info.IsDir() {
			return nil
		}
		base := filepath.Base(p)
		if base == "LOG" || base == "LOCK" || base == "LOG.old" || strings.HasSuffix(base, ".log") || strings.HasPrefix(base, "MANIFEST") || base == "CURRENT" || base == "CURRENT.bak" {
			return nil // leveldb's own journal churn on reopen
		}
		rel, _ := filepath.Rel(root, p)
		out = append(out, fmt.Sprintf("%s:%d", rel, info.Size()))
		return nil
	})
	sort.Strings(out)
	return out
}

func scenRealDiskDrop(k *K) {
	dir, err := os.MkdirTemp("", "verif-real-")
	if err != nil {
		panic(abortPanic{err.Error()})
	}
	k.cleanups = append(k.cleanups, func() { os.RemoveAll(dir) })
	n := k.W.AddNode()
	db := realPeer(k, n, dir)
	ctx := context.Background()
	ndb := k.C.Range(2, 3)
	types := []string{"keyvalue", "eventlog", "docstore"}
	type rec struct {
		addr  string
		st    iface.Store
		state string
		n     int
	}
	var dbs []*rec
	for d := 0; d < ndb; d++ {
		st, err := db.Create(ctx, fmt.Sprintf("drop%d", d), types[k.C.Intn(3)], nil)
		if err != nil {
			k.Failf("C18/real/create", "%v", err)
		}
		r := &rec{addr: st.Address().String(), st: st}
		for j, m := 0, k.C.Range(1, 4); j < m; j++ {
			if _, err := c09Write(ctx, st, fmt.Sprintf("d%d.%d", d, j)); err != nil {
				k.Failf("C18/real/write", "%v", err)
			}
		}
		r.state = VisibleState(st)
		r.n = st.OpLog().Len()
		dbs = append(dbs, r)
	}
	target := k.C.Intn(ndb)
	drop := k.C.Chance(2, 3)
	cacheDirs := func() map[string][]string {
		out := map[string][]string{}
		for _, r := range dbs {
			parts := strings.Split(strings.TrimPrefix(r.addr, "/orbitdb/"), "/")
			out[r.addr] = dirListing(filepath.Join(dir, parts[0]))
		}
		return out
	}
	// siblings are closed first so that their on-disk state is settled
	for i, r := range dbs {
		if i != target {
			if err := r.st.Close(); err != nil {
				k.Failf("C18/real/close", "%v", err)
			}
		}
	}
	before := cacheDirs()
	T := dbs[target]
	ackedAfterClose := ""
	func() {
		defer func() {
			if r := recover(); r != nil {
				if v, ok := r.(violationPanic); ok {
					panic(v)
				}
				k.Failf("C18/real/panic", "Close/Drop or a call on the closed store panicked: %v", r)
			}
		}()
		if drop && k.C.Chance(1, 3) {
			// the handle is closed, the application opens the database again, and only then
			// drops it through the old handle
			k.W.Stat("real-drop-through-closed-handle-after-reopen")
			if err := T.st.Close(); err != nil {
				k.Failf("C18/real/close-error", "%v", err)
			}
			again, err := db.Open(ctx, T.addr, nil)
			if err != nil {
				k.Failf("C18/real/reopen", "%v", err)
			}
			done := make(chan error, 1)
			go func() { done <- T.st.Drop() }()
			select {
			case <-done:
			case <-time.After(6 * time.Second):
				k.Failf("C18/real/drop-hang", "Drop on a closed store whose database had been opened again did not return within 6 s (real time)")
			}
			cdone := make(chan error, 1)
			go func() { cdone <- again.Close() }()
			select {
			case <-cdone:
			case <-time.After(6 * time.Second):
				k.Failf("C18/real/close-hang", "Close of the second handle after the Drop through the first did not return within 6 s (real time)")
			}
		} else if drop {
			if err := T.st.Drop(); err != nil {
				k.Failf("C18/real/drop-error", "%v", err)
			}
		} else {
			for j, m := 0, k.C.Range(1, 3); j < m; j++ {
				if err := T.st.Close(); err != nil {
					k.Failf("C18/real/close-error", "Close #%d: %v", j+1, err)
				}
			}
		}
		cctx, cancel := context.WithTimeout(ctx, 10*time.Second)
		defer cancel()
		if op, err := c09Write(cctx, T.st, "after"); err == nil && op != nil && !drop {
			ackedAfterClose = op.GetEntry().GetHash().String()
		}
		_ = T.st.Load(cctx, -1)
		_ = VisibleState(T.st)
		_ = T.st.Close()
	}()
	after := cacheDirs()
	for i, r := range dbs {
		if i == target {
			continue
		}
		if fmt.Sprint(before[r.addr]) != fmt.Sprint(after[r.addr]) {
			k.Failf("C18/real/sibling-files-changed", "closing/dropping %s changed the files of the sibling %s:\n before %v\n after  %v", short(T.addr), short(r.addr), before[r.addr], after[r.addr])
		}
	}
	if drop {
		parts := strings.Split(strings.TrimPrefix(T.addr, "/orbitdb/"), "/")
		if l := dirListing(filepath.Join(dir, parts[0])); len(l) > 0 {
			k.Failf("C18/real/drop-left-files", "after Drop the cache directory of %s still holds %v", short(T.addr), l)
		}
	}
	for i, r := range dbs {
		st, err := db.Open(ctx, r.addr, nil)
		if err != nil {
			k.Failf("C18/real/reopen", "%v", err)
		}
		lctx, cancel := context.WithTimeout(ctx, 20*time.Second)
		err = st.Load(lctx, -1)
		cancel()
		if err != nil {
			k.Failf("C18/real/load", "%v", err)
		}
		if i == target && drop {
			if st.OpLog().Len() != 0 {
				k.Failf("C18/real/drop-left-data", "dropped database reopened with %d entries", st.OpLog().Len())
			}
			continue
		}
		if i == target && ackedAfterClose != "" {
			if !LogHashSet(st)[ackedAfterClose] {
				k.Failf("C18/real/acked-after-close-lost", "a write on the closed store returned success but its entry is gone after reopen + Load(-1)")
			}
			continue
		}
		if st.OpLog().Len() != r.n || VisibleState(st) != r.state {
			k.Failf("C18/real/contents-changed", "database %s reopened with %d entries / %s, had %d / %s", short(r.addr), st.OpLog().Len(), VisibleState(st), r.n, r.state)
		}
	}
	k.W.mu.Lock()
	k.W.tr("real-disk drop=%v dbs=%d", drop, ndb)
	k.W.mu.Unlock()
	k.Notes["nontrivial"] = drop
	_ = db.Close()
}
