package sim

import (
	"encoding/json"
	"fmt"
	"time"

	ipfslog "berty.tech/go-ipfs-log"
	"berty.tech/go-ipfs-log/entry"
	idp "berty.tech/go-ipfs-log/identityprovider"
	orbitdb "berty.tech/go-orbit-db"
	"berty.tech/go-orbit-db/iface"
	"berty.tech/go-orbit-db/stores/basestore"
	"berty.tech/go-orbit-db/stores/operation"
	cid "github.com/ipfs/go-cid"
)

func init() {
	Register(&Scenario{Prop: "C04", Name: "tampered-entries", Run: scenC04, SoftParks: true, Weight: 1,
		Rule: "honest writer W, receiver R, adversary (listed as a colluding writer in half of the runs); W writes 2-5 entries, R replicates all or some; then 3-8 (thorough 3-16) attempts, each one valid entry of W's log with ONE wire field mutated {payload, clock.time, clock.id, next, refs, v, key, sig, identity.id, identity.publicKey, identity.signatures, identity.type, log id, claimed hash} or an entry of another database written by W, or (1 attempt in 6) a twin of a valid entry re-keyed and re-signed by the adversary and announced right after the valid entry itself was announced under the twin's address, delivered (a) as a head claiming the original hash, (b) as a head claiming the recomputed address, (c) stored under its true address and referenced as predecessor (next), or only as skip-list reference (refs), by a valid entry of the colluding writer; in half of the runs the receiver finally restarts and loads what it had persisted; by topic announcement, direct channel or manual Sync; oracle at every quiescent step: an injected entry that is invalid (claimed hash != address of its re-encoding, or a signed field / key / signature changed, or foreign log id) is in no honest replica's entry set, total order or head set under either hash, and the order of previously held entries is unchanged; non-trivial = >=3 attempts covering >=2 delivery modes reached a replica holding >=2 valid entries"})
}

var c04Fields = []string{"payload", "clock.time", "clock.id", "next", "refs", "v", "key", "sig", "identity.id", "identity.publicKey", "identity.signatures", "identity.type", "id", "hash", "foreign-db"}

func scenC04(k *K) {
	adv := k.NewAdversary()
	collude := k.C.Chance(1, 2)
	typ := []string{"keyvalue", "eventlog"}[k.C.Intn(2)]
	var extra []string
	if collude {
		extra = []string{adv.Own.ID}
	}
	// in half of the runs the receiver is a writer too and now and then writes on top of what
	// it has merged (its own head then has the merged entries in its ancestry)
	rWrites := k.C.Chance(1, 2)
	cw := []int{0}
	if rWrites {
		cw = []int{0, 1}
	}
	c := k.NewCluster(ClusterCfg{N: 2, Type: typ, Writers: cw, ExtraIDs: extra})
	if k.C.Chance(1, 2) {
		// manual syncs may be cancelled by the application in the very quantum in which one
		// of their block fetches completes
		k.F.CancelRace = 3
	}
	W, R := c.Stores[0], c.Stores[1]
	var foreign *entry.Entry
	{
		op := k.Do(0, "create-other", 50, func() (interface{}, error) {
			ctx, cancel := OpCtx(time.Minute)
			defer cancel()
			return c.Peers[0].DB.Create(ctx, "other", typ, &orbitdb.CreateDBOptions{AccessController: WriteACL(c.Peers[0].DB.Identity().ID)})
		})
		if op.Done && op.Err == nil {
			other := op.Val.(iface.Store)
			wop := k.Do(0, "write-other", 20, func() (interface{}, error) {
				ctx, cancel := OpCtx(time.Minute)
				defer cancel()
				return c09Write(ctx, other, "other-db")
			})
			if wop.Done && wop.Err == nil {
				if hs := CopyHeads(other.OpLog().Heads().Slice()); len(hs) == 1 {
					foreign = hs[0].(*entry.Entry)
				}
			}
		}
	}
	for i, m := 0, k.C.Range(2, 5); i < m; i++ {
		c.RandomWrite(0)
		k.Steps(k.C.Intn(6))
	}
	if k.C.Chance(2, 3) {
		k.Settle(60*time.Second, 2500, c.AllIdle)
	}
	adv.Engage(c.Peers[1], R)
	invalid := map[string]string{} // hash (claimed or true) -> description
	tolerated := map[string]bool{} // different-but-valid entries and the colluder's children
	prevOrder := make([][]string, 2)
	check := func(where string) {
		for i, s := range c.Stores {
			seen := map[string]string{}
			for _, e := range s.OpLog().GetEntries().Slice() {
				seen[e.GetHash().String()] = "entry set"
			}
			for _, e := range LogValues(s) {
				if _, ok := seen[e.GetHash().String()]; !ok {
					seen[e.GetHash().String()] = "total order (Values) only"
				}
			}
			for _, h := range HeadHashes(s) {
				if _, ok := seen[h]; !ok {
					seen[h] = "head set only"
				}
			}
			for h, place := range seen {
				if d, bad := invalid[h]; bad {
					k.Failf("C04/invalid-merged/"+d, "%s: replica n%d has an invalid injected entry (%s) in its %s", where, i, d, place)
				}
			}
			// previously held valid entries keep their relative order
			var cur []string
			for _, h := range LogHashSeq(s) {
				if c.ByHash[h] != nil {
					cur = append(cur, h)
				}
			}
			if !isSubsequence(prevOrder[i], cur) {
				k.Failf("C04/valid-order-changed", "%s: on n%d the order of valid entries changed from %v to %v", where, i, c.names(prevOrder[i]), c.names(cur))
			}
			prevOrder[i] = cur
		}
	}
	k.Invariant = func() { check("step") }
	modes := map[string]bool{}
	attempts := k.C.Range(3, 8)
	if Tier == "thorough" {
		attempts = k.C.Range(3, 16)
	}
	done := 0
	for a := 0; a < attempts; a++ {
		var vals []ipfslog.Entry
		for _, e := range LogValues(W) {
			if c.ByHash[e.GetHash().String()] != nil { // only entries W itself wrote
				vals = append(vals, e)
			}
		}
		if len(vals) == 0 {
			break
		}
		src := CopyHeads(vals[k.C.Intn(len(vals)):][:1])[0].(*entry.Entry)
		if k.C.Chance(1, 6) {
			// two steps: a twin of a valid entry that carries the writer's identity block but is
			// keyed and signed by the adversary (invalid: key and signature changed), preceded
			// by the valid entry itself announced under the twin's address
			ident, priv := adv.ForgedIdentity("block-and-key", c.Peers[0].DB.Identity())
			twin, err := adv.Craft("block-and-key", ident, priv, c.Addr, src.Payload, src.Next, src.Clock.Time)
			if err != nil {
				continue
			}
			desc := "resigned-twin@decoy-then-true-address"
			invalid[twin.Hash.String()] = desc
			decoy := CopyHeads([]ipfslog.Entry{src})[0].(*entry.Entry)
			decoy.Hash = twin.Hash
			modes["two-step"] = true
			done++
			k.W.Stat("tamper:resigned-twin")
			k.W.Stat("tamper-mode:two-step")
			adv.Deliver([]string{"topic", "direct", "sync"}[k.C.Intn(3)], c.Peers[1], R, decoy)
			k.Steps(k.C.Range(3, 15))
			adv.Deliver([]string{"topic", "direct", "sync"}[k.C.Intn(3)], c.Peers[1], R, twin)
			k.Steps(k.C.Range(3, 25))
			continue
		}
		field := c04Fields[k.C.Intn(len(c04Fields))]
		mode := []string{"orig-hash", "rehash", "ancestor", "ref"}[k.C.Intn(4)]
		if (mode == "ancestor" || mode == "ref") && !collude {
			mode = []string{"orig-hash", "rehash"}[k.C.Intn(2)]
		}
		m := src
		origHash := src.Hash
		switch field {
		case "payload":
			key := "a"
			p, _ := operation.NewOperation(&key, "PUT", []byte(fmt.Sprintf("tampered-%d", a))).Marshal()
			m.Payload = p
		case "clock.time":
			m.Clock.Time += 1 + k.C.Intn(5)
		case "clock.id":
			m.Clock.ID = adv.Own.PublicKey
		case "next":
			if len(m.Next) > 0 && k.C.Chance(1, 2) {
				m.Next = nil
			} else {
				m.Next = append(append([]cid.Cid(nil), m.Next...), adv.lastCID())
			}
		case "refs":
			m.Refs = append(append([]cid.Cid(nil), m.Refs...), adv.lastCID())
		case "v":
			m.V = 1
		case "key":
			m.Key = adv.Own.PublicKey
		case "sig":
			s := append([]byte(nil), m.Sig...)
			s[len(s)/2] ^= 0x55
			m.Sig = s
		case "identity.id":
			id := *m.Identity
			id.ID = adv.Own.ID
			m.Identity = &id
		case "identity.publicKey":
			id := *m.Identity
			id.PublicKey = adv.Own.PublicKey
			m.Identity = &id
		case "identity.signatures":
			id := *m.Identity
			id.Signatures = &idp.IdentitySignature{ID: adv.Own.Signatures.ID, PublicKey: adv.Own.Signatures.PublicKey}
			m.Identity = &id
		case "identity.type":
			id := *m.Identity
			id.Type = "orbitdb2"
			m.Identity = &id
		case "id":
			if foreign != nil {
				m.LogID = foreign.LogID
			} else {
				m.LogID = c.Addr + "x"
			}
		case "hash":
			m.Hash = adv.lastCID()
		case "foreign-db":
			if foreign == nil {
				continue
			}
			b, _ := json.Marshal(foreign)
			m = &entry.Entry{}
			_ = json.Unmarshal(b, m)
			origHash = m.Hash
		}
		trueCID, err := adv.StoreEntry(m)
		if err != nil {
			continue
		}
		if trueCID.Equals(origHash) && field != "hash" && field != "foreign-db" {
			continue // the mutation did not change the encoding
		}
		signedOrKey := map[string]bool{"payload": true, "clock.time": true, "clock.id": true, "next": true, "refs": true, "v": true, "id": true, "key": true, "sig": true, "foreign-db": true}
		desc := field + "@" + mode
		var heads []*entry.Entry
		switch mode {
		case "orig-hash":
			// content changed, the claimed address is the original one
			if field != "hash" && field != "foreign-db" {
				m.Hash = origHash
			}
			switch {
			case field == "foreign-db":
				invalid[origHash.String()] = desc
			case field == "hash":
				// unmodified content under a foreign claimed address: only the claimed one is invalid
				if c.ByHash[m.Hash.String()] == nil {
					invalid[m.Hash.String()] = desc
				}
			case signedOrKey[field]:
				// the content itself is invalid under any address
				invalid[trueCID.String()] = desc
			default:
				// identity-only change: the message is invalid (address mismatch) but the same
				// bytes under their true address are a different entry that C04 does not judge
				tolerated[trueCID.String()] = true
			}
			heads = []*entry.Entry{m}
		case "rehash":
			m.Hash = trueCID
			if signedOrKey[field] && !tolerated[trueCID.String()] {
				invalid[trueCID.String()] = desc
			} else if field == "hash" {
				// claiming the true address of an unmodified entry: that IS the valid entry
				tolerated[trueCID.String()] = true
			} else {
				tolerated[trueCID.String()] = true // a different entry that is valid by C04's criteria
			}
			heads = []*entry.Entry{m}
		case "ancestor", "ref":
			m.Hash = trueCID
			if signedOrKey[field] {
				invalid[trueCID.String()] = desc
			} else {
				tolerated[trueCID.String()] = true
			}
			maxT := m.Clock.Time + 1
			key := "z"
			p, _ := operation.NewOperation(&key, "PUT", []byte(fmt.Sprintf("child-%d", a))).Marshal()
			if typ == "eventlog" {
				p, _ = operation.NewOperation(nil, "ADD", []byte(fmt.Sprintf("child-%d", a))).Marshal()
			}
			// the colluding writer's valid entry names it as predecessor (next) or only as a
			// skip-list reference (refs), which loads follow but head computation does not
			nx, rf := []cid.Cid{trueCID}, []cid.Cid{}
			if mode == "ref" {
				nx, rf = []cid.Cid{}, []cid.Cid{trueCID}
			}
			child, err := adv.CraftRefs("own", adv.Own, nil, c.Addr, p, nx, rf, maxT)
			if err != nil {
				continue
			}
			tolerated[child.Hash.String()] = true
			heads = []*entry.Entry{child}
		}
		modes[mode] = true
		done++
		k.W.Stat("tamper:" + field)
		k.W.Stat("tamper-mode:" + mode)
		route := []string{"topic", "direct", "sync"}[k.C.Intn(3)]
		diskFault := k.C.Chance(1, 5)
		if diskFault {
			// the receiver's next block write fails (its copy of an announced head cannot be
			// stored): whatever that does to the announcement, nothing tampered gets in
			nd := c.Peers[1].Node
			k.W.mu.Lock()
			k.W.DiskFault = func(on *Node, kind, space, key string) error {
				if on == nd && kind == "block" {
					k.W.DiskFault = nil
					k.W.stat("receiver-block-write-failed")
					return fmt.Errorf("sim: disk error on block write")
				}
				return nil
			}
			k.W.mu.Unlock()
		}
		adv.Deliver(route, c.Peers[1], R, heads...)
		k.Steps(k.C.Range(3, 25))
		if diskFault {
			k.W.mu.Lock()
			k.W.DiskFault = nil
			k.W.mu.Unlock()
		}
		if k.C.Chance(1, 3) {
			c.RandomWrite(0)
			k.Steps(k.C.Intn(8))
		}
		if rWrites && k.C.Chance(1, 3) {
			c.RandomWrite(1)
			k.Steps(k.C.Intn(8))
		}
	}
	k.Settle(90*time.Second, 3000, nil)
	check("rest")
	// one more route: the receiver restarts and loads what it had persisted
	if k.C.Chance(1, 2) {
		k.W.Stat("route:restart-load")
		k.Invariant = nil
		c.Down(1, k.C.Chance(1, 2))
		if err := c.Up(1); err == nil {
			R = c.Stores[1]
			prevOrder[1] = nil
			k.Settle(60*time.Second, 2000, nil)
			check("after-restart")
			k.Invariant = func() { check("step") }
		}
	}
	// one more route: what the replicator left unfinished is saved with a snapshot and handed
	// back to it when the snapshot is loaded by a fresh store object
	if k.C.Chance(1, 2) {
		k.W.Stat("route:snapshot-queue")
		sop := k.Do(c.Peers[1].Node.Idx, "save-snapshot", 100, func() (interface{}, error) {
			ctx, cancel := OpCtx(2 * time.Minute)
			defer cancel()
			return basestore.SaveSnapshot(ctx, R)
		})
		if sop.Done && sop.Err == nil {
			k.Invariant = nil
			c.Down(1, false)
			p, err := k.StartPeer(c.Peers[1].Node, c.PeerOpts...)
			if err != nil {
				panic(abortPanic{err.Error()})
			}
			c.Peers[1] = p
			oop := k.Do(p.Node.Idx, "reopen", 300, func() (interface{}, error) {
				ctx, cancel := OpCtx(5 * time.Minute)
				defer cancel()
				return p.DB.Open(ctx, c.Addr, c.createOpts(1))
			})
			if oop.Done && oop.Err == nil {
				st := oop.Val.(iface.Store)
				c.Stores[1] = st
				R = st
				prevOrder[1] = nil
				k.Do(p.Node.Idx, "load-from-snapshot", 300, func() (interface{}, error) {
					ctx, cancel := OpCtx(5 * time.Minute)
					defer cancel()
					return nil, st.LoadFromSnapshot(ctx)
				})
				k.Settle(90*time.Second, 3000, nil)
				check("after-snapshot-reload")
			}
		}
	}
	k.Notes["attempts"] = done
	k.Notes["modes"] = len(modes)
	k.Notes["nontrivial"] = done >= 3 && len(modes) >= 2 && len(LogHashSet(R)) >= 2
	c.CloseAll()
}
