package sim

import "github.com/btcsuite/btcd/btcec"

func idpUncompress(pubKeyBytes []byte) ([]byte, error) {
	pubKey, err := btcec.ParsePubKey(pubKeyBytes, btcec.S256())
	if err != nil {
		return nil, err
	}
	return pubKey.SerializeUncompressed(), nil
}
