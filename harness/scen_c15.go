package sim

import (
	"fmt"
	"time"

	"berty.tech/go-orbit-db/iface"
	"berty.tech/go-orbit-db/stores/operation"
)

func init() {
	Register(&Scenario{Prop: "C15", Name: "load-limit", Run: scenC15, SoftParks: true, Weight: 1,
		Rule: "node T persists a log of 1-9 (thorough 1-20) entries: single-writer chain, or several heads built from local writes plus entries replicated from 1-2 feeders under reorder; T is closed; then for EVERY limit n in {-3,-1,0,1,...,total+3}, given per call or through the MaxHistory option, the final durable image is reopened in isolation and Load(n) runs; oracle: n>0 => exactly min(n,total) entries visible, in an order consistent with the full listing, newest entry included, and for a single-writer log exactly the n most recent; n<=0 => everything; never a panic or an error on a short log; in a third of the cases a second Load with another limit follows on the same store object (no panic, no error, still a part of the log in its order with the newest entry; how many entries a second load shows is not judged); in a sixth of the cases every block read of the load takes 2-5 virtual seconds (a slow disk; the caller allows half an hour); in a fifth of the cases with a positive limit one local write lands while the load is under way (both succeed; at most min(n,total) of the persisted entries visible, in order; an entry beyond the limit only if it is that write and it is the newest; view = replay of the log); one evaluation = one persisted log with all its limits; non-trivial = total>=3 and at least one limit strictly inside (0,total) and one beyond total"})
}

func scenC15(k *K) {
	typ := []string{"eventlog", "keyvalue"}[k.C.Intn(2)]
	n := k.C.Range(1, 3)
	c := k.NewCluster(ClusterCfg{N: n, Type: typ})
	T := c.Peers[0].Node
	if k.C.Chance(2, 3) {
		k.F.Reorder, k.F.ServeAny = 3, 3
	}
	maxw := 9
	if Tier == "thorough" {
		maxw = 20
	}
	nw := k.C.Range(1, maxw)
	for i := 0; i < nw; i++ {
		node := 0
		if n > 1 && k.C.Chance(1, 2) {
			node = k.C.Intn(n)
		}
		c.RandomWrite(node)
		k.Steps(k.C.Intn(6))
	}
	k.Settle(60*time.Second, 2500, c.AllIdle)
	full := LogHashSeq(c.Stores[0])
	total := len(full)
	authors := map[string]bool{}
	for _, e := range LogValues(c.Stores[0]) {
		authors[e.GetIdentity().ID] = true
	}
	single := len(authors) <= 1
	heads := len(HeadHashes(c.Stores[0]))
	c.CloseAll()
	k.Settle(30*time.Second, 500, nil)
	if total == 0 {
		k.Notes["nontrivial"] = false
		return
	}
	inside, beyond := false, false
	limits := []int{-3, -1, 0}
	for l := 1; l <= total+3; l++ {
		limits = append(limits, l)
	}
	viaOpt := k.C.Chance(1, 3)
	for _, lim := range limits {
		if lim > 0 && lim < total {
			inside = true
		}
		if lim > total {
			beyond = true
		}
		c15Load(k, c, T, lim, viaOpt && lim > 0, full, single)
	}
	k.Notes["total"] = total
	k.Notes["limits_checked"] = len(limits)
	k.Notes["single_writer"] = single
	k.Notes["heads"] = heads
	k.Notes["nontrivial"] = total >= 3 && inside && beyond
}

func c15Load(k *K, c *Cluster, T *Node, lim int, viaOption bool, full []string, single bool) {
	c15LoadOpt(k, c, T, lim, viaOption, full, single, false)
}

// c15LoadOpt: with refusedInHistory set, blocks of entries that every replica refuses are
// reachable from the cached heads; a limited load may then show fewer than min(n, total)
// entries (the fetch counts the refused ones), which is not held against it here
func c15LoadOpt(k *K, c *Cluster, T *Node, lim int, viaOption bool, full []string, single bool, refusedInHistory bool) {
	total := len(full)
	img := T.Disk.FromPrefix(len(T.Disk.Effects))
	rn := k.W.AddNodeWithDisk(T.Idx, img)
	opts := c.PeerOpts
	how := fmt.Sprintf("Load(%d)", lim)
	callLim := lim
	if viaOption {
		mh := lim
		opts = append(append([]PeerOpt(nil), opts...), WithKnobs(Knobs{MaxHistory: &mh}))
		callLim = -1
		how = fmt.Sprintf("MaxHistory=%d + Load(-1)", lim)
	}
	rp, err := k.StartPeer(rn, opts...)
	if err != nil {
		panic(abortPanic{err.Error()})
	}
	rp.Inc.SetOffline(true)
	defer func() {
		op := k.StopPeer(rp)
		k.Wait()
		for j := 0; j < 50 && !k.IsDone(op); j++ {
			k.Step()
		}
		k.W.Detach(rp.Inc)
	}()
	op := k.Do(rn.Idx, "open", 200, func() (interface{}, error) {
		ctx, cancel := OpCtx(2 * time.Minute)
		defer cancel()
		return rp.DB.Open(ctx, c.Addr, c.createOpts(0))
	})
	if !op.Done || op.Err != nil {
		panic(abortPanic{fmt.Sprintf("open for load: %v", op.Err)})
	}
	st := op.Val.(iface.Store)
	k.W.Stat("load-limit-case")
	if !refusedInHistory && lim > 0 && k.C.Chance(1, 5) {
		c15LoadBesideWrite(k, rp, st, how, callLim, lim, full)
		return
	}
	var lop *Op
	if !refusedInHistory && k.C.Chance(1, 6) {
		// a slow disk: every block read of the load takes 2-5 virtual seconds (the caller allows
		// half an hour): the load takes its time and shows what it would show anyway
		how += " on a slow disk"
		k.W.Stat("load-on-slow-disk")
		rp.Inc.SetSlowLocal(true)
		lop = k.Go(rn.Idx, how, func() (interface{}, error) {
			// the caller allows half an hour: a load whose context ends before the last
			// block has been read shows less, without an error (that is not judged here)
			ctx, cancel := OpCtx(30 * time.Minute)
			defer cancel()
			return nil, st.Load(ctx, callLim)
		})
		saved := k.F
		k.F = FaultCfg{Serve: 1}
		for j := 0; j < 200 && !k.IsDone(lop); j++ {
			k.Tick(time.Duration(k.C.Range(2, 5)) * time.Second)
			k.Step()
		}
		k.F = saved
		rp.Inc.SetSlowLocal(false)
		for j := 0; j < 100 && !k.IsDone(lop); j++ {
			k.Step()
		}
	} else {
		lop = k.Do(rn.Idx, how, 200, func() (interface{}, error) {
			ctx, cancel := OpCtx(2 * time.Minute)
			defer cancel()
			return nil, st.Load(ctx, callLim)
		})
	}
	if !k.IsDone(lop) {
		k.Failf("C15/hang", "%s on a %d-entry log did not return", how, total)
	}
	if lop.Err != nil {
		k.Failf("C15/load-error", "%s on a %d-entry log failed: %v", how, total, lop.Err)
	}
	got := LogHashSeq(st)
	want := total
	if lim > 0 && lim < total {
		want = lim
	}
	cls := "limit-inside"
	if lim <= 0 {
		cls = "limit-nonpositive"
	} else if lim >= total {
		cls = "limit-ge-total"
	}
	if refusedInHistory && lim > 0 {
		if len(got) > want || len(got) == 0 {
			k.Failf("C15/count/"+cls, "%s on a persisted %d-entry log with refused entries in its ancestry made %d entries visible, expected 1..%d", how, total, len(got), want)
		}
	} else if len(got) != want {
		k.Failf("C15/count/"+cls, "%s on a persisted %d-entry log (single writer: %v) made %d entries visible, expected %d", how, total, single, len(got), want)
	}
	if !isSubsequence(got, full) {
		k.Failf("C15/order", "%s lists entries out of log order: positions %s of the full listing", how, positions(full, got))
	}
	if len(got) > 0 && got[len(got)-1] != full[total-1] {
		k.Failf("C15/newest-missing", "%s does not include the newest entry: positions %s of %d", how, positions(full, got), total)
	}
	if single && !EqStrs(got, full[total-len(got):]) {
		k.Failf("C15/not-most-recent", "%s on a single-writer log lists positions %s, expected the %d most recent", how, positions(full, got), want)
	}
	// a second load on the same store object, with another limit: it must not fail either, and
	// what is visible stays a part of the log, in its order, newest entry included
	if k.C.Chance(1, 3) {
		lim2 := []int{-1, 0, 1, lim + 1, lim + 3, total, total + 2, lim - 1}[k.C.Intn(8)]
		how2 := fmt.Sprintf("%s then Load(%d) on the same store", how, lim2)
		k.W.Stat("second-load-on-same-store")
		lop2 := k.Do(rn.Idx, fmt.Sprintf("Load(%d) again", lim2), 200, func() (interface{}, error) {
			ctx, cancel := OpCtx(2 * time.Minute)
			defer cancel()
			return nil, st.Load(ctx, lim2)
		})
		if !lop2.Done {
			k.Failf("C15/hang", "%s on a %d-entry log did not return", how2, total)
		}
		if lop2.Err != nil {
			k.Failf("C15/load-error", "%s on a %d-entry log failed: %v", how2, total, lop2.Err)
		}
		got2 := LogHashSeq(st)
		if !isSubsequence(got2, full) {
			k.Failf("C15/order", "%s lists entries out of log order: positions %s of the full listing", how2, positions(full, got2))
		}
		if len(got2) > 0 && got2[len(got2)-1] != full[total-1] {
			k.Failf("C15/newest-missing", "%s does not include the newest entry: positions %s of %d", how2, positions(full, got2), total)
		}
	}
	// the key-value view is the replay of what the log holds now, no more (a second load with
	// a smaller limit cuts a live log down)
	if kv, ok := st.(iface.KeyValueStore); ok {
		if got, want := MapStr(KVState(kv)), MapStr(ReplayLWW(LogValues(st))); got != want {
			k.Failf("C15/view-differs", "after %s (and, in a third of the cases, a second load) the key-value view is {%s} but the %d entries the log holds replay to {%s}", how, got, len(LogValues(st)), want)
		}
	}
	// the event-log view agrees with the log
	if el, ok := st.(iface.EventLogStore); ok {
		if vs := VisibleState(el); len(got) > 0 && vs == "log[]" {
			k.Failf("C15/view-empty", "%s loaded %d entries but List(-1) is empty", how, len(got))
		}
	}
}

func init() {
	Register(&Scenario{Prop: "C15", Name: "limit-with-refused-ancestor", Run: scenC15Refused, Weight: 1,
		Rule: "the persisted log of a replica R holds valid entries of a misbehaving authorised writer whose next or refs name entries every replica refuses (forged author, other log), besides honest entries of two writers; fresh instances on copies of R's directory load it with limits from -1 to total+2 (per call or through the maximum-history option); oracle: no call panics, hangs or fails; what becomes visible is in log order and includes the newest entry; unlimited loads show all total entries, a positive limit n shows between 1 and min(n, total) entries (the fetch counts the refused blocks it meets); non-trivial = R had merged at least one entry with a refused entry in its ancestry and at least one limit lay inside the log"})
}

func scenC15Refused(k *K) {
	c, _, _, tainted := refusedAncestorHistory(k, "C15")
	R := c.Stores[1]
	full := LogHashSeq(R)
	total := len(full)
	T := c.Peers[1].Node
	c.Down(1, false)
	inside := false
	lims := []int{-1, 0, total, total + 2}
	for j, m := 0, k.C.Range(2, 5); j < m && total > 1; j++ {
		lims = append(lims, k.C.Range(1, total-1))
	}
	for _, i := range k.C.Perm(len(lims)) {
		lim := lims[i]
		if lim > 0 && lim < total {
			inside = true
		}
		c15LoadOpt(k, c, T, lim, lim > 0 && k.C.Chance(1, 3), full, false, true)
	}
	k.Notes["total"] = total
	k.Notes["tainted_merged"] = tainted
	k.Notes["nontrivial"] = tainted > 0 && inside
	c.CloseAll()
}

// c15LoadBesideWrite: one local write lands while the limited load is under way (its block
// reads take kernel steps). The write may come before or after the cut the load makes, so
// what is judged is what holds either way: both calls succeed; of the persisted entries at
// most min(n,total) are visible, in log order; one entry more than the limit is visible only
// if it is the concurrent write and that write came last, on top of everything the load had
// made visible (it is the newest entry then); the view agrees with the log
func c15LoadBesideWrite(k *K, rp *Peer, st iface.Store, how string, callLim, lim int, full []string) {
	total := len(full)
	how += " beside a local write"
	k.W.Stat("load-beside-write")
	rp.Inc.SetSlowLocal(true)
	defer rp.Inc.SetSlowLocal(false)
	lop := k.Go(rp.Node.Idx, how, func() (interface{}, error) {
		ctx, cancel := OpCtx(2 * time.Minute)
		defer cancel()
		return nil, st.Load(ctx, callLim)
	})
	k.Wait()
	saved := k.F
	k.F = FaultCfg{Serve: 3, ServeAny: 1}
	for j, m := 0, k.C.Intn(5); j < m && !k.IsDone(lop); j++ {
		k.Step()
	}
	wop := k.Go(rp.Node.Idx, "write-during-load", func() (interface{}, error) {
		ctx, cancel := OpCtx(2 * time.Minute)
		defer cancel()
		return c09Write(ctx, st, "during-load")
	})
	for j := 0; j < 400 && !(k.IsDone(lop) && k.IsDone(wop)); j++ {
		k.Step()
	}
	k.F = saved
	if !k.IsDone(lop) || !k.IsDone(wop) {
		k.Failf("C15/hang", "%s on a %d-entry log: load done=%v, write done=%v; pending=%v", how, total, k.IsDone(lop), k.IsDone(wop), k.PendingDesc())
	}
	if lop.Err != nil {
		k.Failf("C15/load-error", "%s on a %d-entry log failed: %v", how, total, lop.Err)
	}
	if wop.Err != nil {
		k.Failf("C15/write-error", "a local write beside %s failed: %v", how, wop.Err)
	}
	w := wop.Val.(operation.Operation).GetEntry().GetHash().String()
	got := LogHashSeq(st)
	var persisted []string
	wpos := -1
	for i, h := range got {
		if h == w {
			wpos = i
		} else {
			persisted = append(persisted, h)
		}
	}
	want := total
	if lim < total {
		want = lim
	}
	if len(persisted) > want {
		k.Failf("C15/count/limit-inside", "%s on a persisted %d-entry log made %d of the persisted entries visible, expected at most %d", how, total, len(persisted), want)
	}
	if !isSubsequence(persisted, full) {
		k.Failf("C15/order", "%s lists entries out of log order: positions %s of the full listing", how, positions(full, persisted))
	}
	if len(got) > lim && (wpos != len(got)-1) {
		k.Failf("C15/not-most-recent", "%s made %d entries visible; the one beyond the limit can only be the concurrent write coming on top of what the load left, but that write is at position %d of %d (older entries than the invisible ones are visible)", how, len(got), wpos, len(got))
	}
	if len(got) == 0 {
		k.Failf("C15/count/limit-inside", "%s left nothing visible", how)
	}
	if kv, ok := st.(iface.KeyValueStore); ok {
		if got, want := MapStr(KVState(kv)), MapStr(ReplayLWW(LogValues(st))); got != want {
			k.Failf("C15/view-differs", "after %s the key-value view is {%s} but the %d entries the log holds replay to {%s}", how, got, len(LogValues(st)), want)
		}
	}
}
