package sim

import (
	"context"
	"encoding/json"
	"fmt"
	"sort"
	"strings"
	"time"

	ipfslog "berty.tech/go-ipfs-log"
	"berty.tech/go-ipfs-log/identityprovider"
	"berty.tech/go-ipfs-log/keystore"
	orbitdb "berty.tech/go-orbit-db"
	"berty.tech/go-orbit-db/accesscontroller"
	"berty.tech/go-orbit-db/address"
	"berty.tech/go-orbit-db/iface"
	"berty.tech/go-orbit-db/pubsub/directchannel"
	"berty.tech/go-orbit-db/stores/documentstore"
	"berty.tech/go-orbit-db/stores/eventlogstore"
	"berty.tech/go-orbit-db/stores/kvstore"
	"berty.tech/go-orbit-db/stores/operation"
	coreiface "github.com/ipfs/kubo/core/coreiface"
	"go.uber.org/zap"
)

// Peer is one running OrbitDB instance (real code) on one incarnation of a simulated node.
type Peer struct {
	Node   *Node
	Inc    *Inc
	DB     orbitdb.OrbitDB
	KS     *keystore.Keystore
	Cache  *SimCache
	Dir    string
	Stores map[string]iface.Store // by address
	Opts   *orbitdb.NewOrbitDBOptions
	Knobs  Knobs
}

// Knobs are store-constructor options that CreateDBOptions cannot reach; they are applied by
// re-registering the store types with wrapper constructors (public API).
type Knobs struct {
	Concurrency uint
	RefCount    int // 0 = default (64)
	MaxHistory  *int
}

// WithKnobs sets the knobs of the next StartPeer.
func WithKnobs(kn Knobs) PeerOpt {
	return func(p *Peer, _ *orbitdb.NewOrbitDBOptions) { p.Knobs = kn }
}

func (p *Peer) applyKnobs() {
	kn := p.Knobs
	wrap := func(inner iface.StoreConstructor) iface.StoreConstructor {
		return func(ipfs coreiface.CoreAPI, id *identityprovider.Identity, addr address.Address, o *iface.NewStoreOptions) (iface.Store, error) {
			if kn.Concurrency != 0 {
				o.ReplicationConcurrency = kn.Concurrency
			}
			if kn.RefCount != 0 {
				rc := kn.RefCount
				o.ReferenceCount = &rc
			}
			if kn.MaxHistory != nil {
				mh := *kn.MaxHistory
				o.MaxHistory = &mh
			}
			return inner(ipfs, id, addr, o)
		}
	}
	p.DB.RegisterStoreType("eventlog", wrap(eventlogstore.NewOrbitDBEventLogStore))
	p.DB.RegisterStoreType("keyvalue", wrap(kvstore.NewOrbitDBKeyValue))
	p.DB.RegisterStoreType("docstore", wrap(documentstore.NewOrbitDBDocumentStore))
}

// PeerOpt lets scenarios adjust NewOrbitDBOptions (e.g. the direct-channel factory).
type PeerOpt func(p *Peer, o *orbitdb.NewOrbitDBOptions)

// StartPeer boots the node and creates the OrbitDB instance on its durable state. Only local
// I/O happens here, so it runs on the kernel goroutine.
func (k *K) StartPeer(n *Node, opts ...PeerOpt) (*Peer, error) {
	inc := n.Boot()
	ks, err := keystore.NewKeystore(inc.NewKeystoreDS())
	if err != nil {
		return nil, err
	}
	p := &Peer{Node: n, Inc: inc, KS: ks, Cache: inc.NewCache(), Dir: fmt.Sprintf("/sim/n%d", n.Origin), Stores: map[string]iface.Store{}}
	o := &orbitdb.NewOrbitDBOptions{Directory: &p.Dir, Keystore: ks, Cache: p.Cache}
	for _, f := range opts {
		f(p, o)
	}
	p.Opts = o
	db, err := orbitdb.NewOrbitDB(inc.Ctx, inc.API(), o)
	if err != nil {
		return nil, err
	}
	p.DB = db
	if p.Knobs != (Knobs{}) {
		p.applyKnobs()
	}
	k.cleanups = append(k.cleanups, func() { go func() { _ = db.Close() }() })
	k.W.mu.Lock()
	k.W.tr("boot n%d inc%d", n.Idx, inc.N)
	k.W.mu.Unlock()
	return p, nil
}

// Stop closes the instance cleanly (in its own goroutine; the kernel does not wait inside).
func (k *K) StopPeer(p *Peer) *Op {
	return k.Go(p.Node.Idx, "close-instance", func() (interface{}, error) {
		err := p.DB.Close()
		p.Inc.Cancel()
		return nil, err
	})
}

// Crash makes the incarnation a zombie at once, then lets its goroutines wind down.
func (k *K) CrashPeer(p *Peer) {
	k.W.mu.Lock()
	k.W.tr("crash n%d inc%d", p.Node.Idx, p.Inc.N)
	k.W.stat("crash")
	k.W.mu.Unlock()
	k.W.Detach(p.Inc)
	k.lastFaultStep = k.W.step
	k.reap(p)
}

// reap winds down a zombie: cancel its contexts and close it so its goroutines exit.
func (k *K) reap(p *Peer) {
	p.Inc.Cancel()
	go func() { _ = p.DB.Close() }()
}

func WriteACL(ids ...string) accesscontroller.ManifestParams {
	return &accesscontroller.CreateAccessControllerOptions{Access: map[string][]string{"write": ids}}
}

// ---------------- store observation helpers (pure reads of public API) ----------------

// EntryName gives a run-stable name to an entry: the operation it carries.
func EntryName(e ipfslog.Entry) string {
	op, err := operation.ParseOperation(e)
	if err != nil {
		return "?" + e.GetHash().String()
	}
	return OpName(op)
}

func OpName(op operation.Operation) string {
	k := "<nil>"
	if op.GetKey() != nil {
		k = *op.GetKey()
	}
	s := fmt.Sprintf("%s(%s)=%s", op.GetOperation(), k, string(op.GetValue()))
	if op.GetOperation() == "PUTALL" {
		var ds []string
		for _, d := range op.GetDocs() {
			ds = append(ds, d.GetKey()+"="+string(d.GetValue()))
		}
		sort.Strings(ds)
		s += "{" + strings.Join(ds, ",") + "}"
	}
	return s
}

// LogValues returns the store's log in its total order.
func LogValues(s iface.Store) []ipfslog.Entry { return s.OpLog().Values().Slice() }

func LogNames(s iface.Store) []string {
	vs := LogValues(s)
	out := make([]string, len(vs))
	for i, e := range vs {
		out[i] = EntryName(e)
	}
	return out
}

func LogHashSet(s iface.Store) map[string]bool {
	m := map[string]bool{}
	for _, e := range s.OpLog().GetEntries().Slice() {
		m[e.GetHash().String()] = true
	}
	return m
}

func HeadHashes(s iface.Store) []string {
	var hs []string
	for _, e := range s.OpLog().Heads().Slice() {
		hs = append(hs, e.GetHash().String())
	}
	sort.Strings(hs)
	return hs
}

func KVState(s iface.KeyValueStore) map[string]string {
	out := map[string]string{}
	for k, v := range s.All() {
		out[k] = string(v)
	}
	return out
}

func MapStr(m map[string]string) string {
	var ks []string
	for k := range m {
		ks = append(ks, k)
	}
	sort.Strings(ks)
	var b strings.Builder
	for _, k := range ks {
		fmt.Fprintf(&b, "%q=%q,", k, m[k])
	}
	return b.String()
}

func SetKey(m map[string]bool) string {
	var ks []string
	for k := range m {
		ks = append(ks, k)
	}
	sort.Strings(ks)
	return strings.Join(ks, ",")
}

func EqStrs(a, b []string) bool {
	if len(a) != len(b) {
		return false
	}
	for i := range a {
		if a[i] != b[i] {
			return false
		}
	}
	return true
}

func EqMap(a, b map[string]string) bool {
	if len(a) != len(b) {
		return false
	}
	for k, v := range a {
		if w, ok := b[k]; !ok || w != v {
			return false
		}
	}
	return true
}

// OpCtx is the context handed to client operations: bounded in virtual time so that a
// wedged call becomes an observable error instead of a hang.
func OpCtx(d time.Duration) (context.Context, context.CancelFunc) {
	return context.WithTimeout(context.Background(), d)
}

// VisibleState is the canonical text of what the store's query API shows (by store type).
func VisibleState(s iface.Store) string {
	switch st := s.(type) {
	case iface.KeyValueStore:
		return "kv{" + MapStr(KVState(st)) + "}"
	case iface.EventLogStore:
		all := -1
		ops, err := st.List(context.Background(), &iface.StreamOptions{Amount: &all})
		if err != nil {
			return "eventlog-error:" + err.Error()
		}
		var names []string
		for _, o := range ops {
			names = append(names, OpName(o))
		}
		return "log[" + strings.Join(names, " | ") + "]"
	case iface.DocumentStore:
		docs, err := st.Query(context.Background(), func(interface{}) (bool, error) { return true, nil })
		if err != nil {
			return "docs-error:" + err.Error()
		}
		var ds []string
		for _, d := range docs {
			b, _ := json.Marshal(d)
			ds = append(ds, string(b))
		}
		sort.Strings(ds)
		return "docs{" + strings.Join(ds, " | ") + "}"
	}
	return "?"
}

func LogHashSeq(s iface.Store) []string {
	vs := LogValues(s)
	out := make([]string, len(vs))
	for i, e := range vs {
		out[i] = e.GetHash().String()
	}
	return out
}

// WithDirectChannelStreams makes the instance use the libp2p-stream direct channel
// (pubsub/directchannel) over the stub host instead of the default pubsub-based one.
func WithDirectChannelStreams() PeerOpt {
	return func(p *Peer, o *orbitdb.NewOrbitDBOptions) {
		o.DirectChannelFactory = directchannel.InitDirectChannelFactory(zap.NewNop(), p.Inc.Host())
	}
}
