package sim

import (
	"context"
	"fmt"
	"sort"
	"strings"
	"time"

	ipfslog "berty.tech/go-ipfs-log"
	"berty.tech/go-ipfs-log/keystore"
	orbitdb "berty.tech/go-orbit-db"
	"berty.tech/go-orbit-db/accesscontroller"
	"berty.tech/go-orbit-db/iface"
	"berty.tech/go-orbit-db/stores/operation"
)

// Peer is one running OrbitDB instance (real code) on one incarnation of a simulated node.
type Peer struct {
	Node   *Node
	Inc    *Inc
	DB     orbitdb.OrbitDB
	KS     *keystore.Keystore
	Cache  *SimCache
	Dir    string
	Stores map[string]iface.Store // by address
	Opts   *orbitdb.NewOrbitDBOptions
}

// PeerOpt lets scenarios adjust NewOrbitDBOptions (e.g. the direct-channel factory).
type PeerOpt func(p *Peer, o *orbitdb.NewOrbitDBOptions)

// StartPeer boots the node and creates the OrbitDB instance on its durable state. Only local
// I/O happens here, so it runs on the kernel goroutine.
func (k *K) StartPeer(n *Node, opts ...PeerOpt) (*Peer, error) {
	inc := n.Boot()
	ks, err := keystore.NewKeystore(inc.NewKeystoreDS())
	if err != nil {
		return nil, err
	}
	p := &Peer{Node: n, Inc: inc, KS: ks, Cache: inc.NewCache(), Dir: fmt.Sprintf("/sim/n%d", n.Idx), Stores: map[string]iface.Store{}}
	o := &orbitdb.NewOrbitDBOptions{Directory: &p.Dir, Keystore: ks, Cache: p.Cache}
	for _, f := range opts {
		f(p, o)
	}
	p.Opts = o
	db, err := orbitdb.NewOrbitDB(inc.Ctx, inc.API(), o)
	if err != nil {
		return nil, err
	}
	p.DB = db
	k.cleanups = append(k.cleanups, func() { go func() { _ = db.Close() }() })
	k.W.mu.Lock()
	k.W.tr("boot n%d inc%d", n.Idx, inc.N)
	k.W.mu.Unlock()
	return p, nil
}

// Stop closes the instance cleanly (in its own goroutine; the kernel does not wait inside).
func (k *K) StopPeer(p *Peer) *Op {
	return k.Go(p.Node.Idx, "close-instance", func() (interface{}, error) {
		err := p.DB.Close()
		p.Inc.Cancel()
		return nil, err
	})
}

// Crash makes the incarnation a zombie at once, then lets its goroutines wind down.
func (k *K) CrashPeer(p *Peer) {
	k.W.mu.Lock()
	k.W.tr("crash n%d inc%d", p.Node.Idx, p.Inc.N)
	k.W.stat("crash")
	k.W.mu.Unlock()
	k.W.Detach(p.Inc)
	k.lastFaultStep = k.W.step
	k.reap(p)
}

// reap winds down a zombie: cancel its contexts and close it so its goroutines exit.
func (k *K) reap(p *Peer) {
	p.Inc.Cancel()
	go func() { _ = p.DB.Close() }()
}

func WriteACL(ids ...string) accesscontroller.ManifestParams {
	return &accesscontroller.CreateAccessControllerOptions{Access: map[string][]string{"write": ids}}
}

// ---------------- store observation helpers (pure reads of public API) ----------------

// EntryName gives a run-stable name to an entry: the operation it carries.
func EntryName(e ipfslog.Entry) string {
	op, err := operation.ParseOperation(e)
	if err != nil {
		return "?" + e.GetHash().String()
	}
	return OpName(op)
}

func OpName(op operation.Operation) string {
	k := "<nil>"
	if op.GetKey() != nil {
		k = *op.GetKey()
	}
	s := fmt.Sprintf("%s(%s)=%s", op.GetOperation(), k, string(op.GetValue()))
	if op.GetOperation() == "PUTALL" {
		var ds []string
		for _, d := range op.GetDocs() {
			ds = append(ds, d.GetKey()+"="+string(d.GetValue()))
		}
		sort.Strings(ds)
		s += "{" + strings.Join(ds, ",") + "}"
	}
	return s
}

// LogValues returns the store's log in its total order.
func LogValues(s iface.Store) []ipfslog.Entry { return s.OpLog().Values().Slice() }

func LogNames(s iface.Store) []string {
	vs := LogValues(s)
	out := make([]string, len(vs))
	for i, e := range vs {
		out[i] = EntryName(e)
	}
	return out
}

func LogHashSet(s iface.Store) map[string]bool {
	m := map[string]bool{}
	for _, e := range s.OpLog().GetEntries().Slice() {
		m[e.GetHash().String()] = true
	}
	return m
}

func HeadHashes(s iface.Store) []string {
	var hs []string
	for _, e := range s.OpLog().Heads().Slice() {
		hs = append(hs, e.GetHash().String())
	}
	sort.Strings(hs)
	return hs
}

func KVState(s iface.KeyValueStore) map[string]string {
	out := map[string]string{}
	for k, v := range s.All() {
		out[k] = string(v)
	}
	return out
}

func MapStr(m map[string]string) string {
	var ks []string
	for k := range m {
		ks = append(ks, k)
	}
	sort.Strings(ks)
	var b strings.Builder
	for _, k := range ks {
		fmt.Fprintf(&b, "%q=%q,", k, m[k])
	}
	return b.String()
}

func SetKey(m map[string]bool) string {
	var ks []string
	for k := range m {
		ks = append(ks, k)
	}
	sort.Strings(ks)
	return strings.Join(ks, ",")
}

func EqStrs(a, b []string) bool {
	if len(a) != len(b) {
		return false
	}
	for i := range a {
		if a[i] != b[i] {
			return false
		}
	}
	return true
}

func EqMap(a, b map[string]string) bool {
	if len(a) != len(b) {
		return false
	}
	for k, v := range a {
		if w, ok := b[k]; !ok || w != v {
			return false
		}
	}
	return true
}

// OpCtx is the context handed to client operations: bounded in virtual time so that a
// wedged call becomes an observable error instead of a hang.
func OpCtx(d time.Duration) (context.Context, context.CancelFunc) {
	return context.WithTimeout(context.Background(), d)
}
