package sim

import (
	"berty.tech/go-orbit-db/accesscontroller"
	"berty.tech/go-orbit-db/cache/cacheleveldown"
	"context"
	"fmt"
	"sort"
	"strings"
	"time"

	orbitdb "berty.tech/go-orbit-db"
	"berty.tech/go-orbit-db/address"
	"berty.tech/go-orbit-db/iface"
)

func init() {
	Register(&Scenario{Prop: "C14", Name: "addresses", Run: scenC14, SoftParks: true, Weight: 1,
		Rule: "2-3 peers with distinct identities and separate block stores; 3-8 (thorough 3-16) databases whose names come from a segment grammar {ascii, unicode, space, empty, '.', '..', nested, dotted, CID-looking segments of addresses created earlier in the same run}, any registered type, explicit write lists or the creator default; for every input DetermineAddress on every peer, address.Parse(String()) round trip, pairwise distinctness of addresses of distinct inputs; Create on one peer and Open on another through the simulated exchange under delay, loss until heal, or a virtual-time timeout: Open fails or yields the creation type and write list; Create over an existing local database (also after a restart, and after an overwriting Create that failed half-way under local read errors) must be refused without Overwrite and the database must still open LocalOnly; Open(LocalOnly) of an unknown database must be refused (also when the read of the local-presence marker fails with a disk error); in half of the runs two databases with different write lists are finally opened at the same time on a fresh peer by two calls sharing one options value, each having to come back with its own type and write list; non-trivial = >=3 accepted names, >=1 remote open that succeeded and >=1 name with a special segment; a remote open may also meet failing block fetches (any of the blocks an Open reads), and an open that failed is repeated on a healthy network: the store it then gets is the database as created (type, write list)"})
}

type c14input struct {
	name  string
	typ   string
	write []string // effective write list (explicit, or creator id)
	addr  string
	by    int
}

func scenC14(k *K) {
	np := k.C.Range(2, 3)
	var peers []*Peer
	for i := 0; i < np; i++ {
		p, err := k.StartPeer(k.W.AddNode())
		if err != nil {
			panic(abortPanic{err.Error()})
		}
		peers = append(peers, p)
	}
	var ids []string
	for _, p := range peers {
		ids = append(ids, p.DB.Identity().ID)
	}
	types := []string{"keyvalue", "eventlog", "docstore"}
	var roots []string
	segment := func() (string, bool) {
		switch k.C.Intn(11) {
		case 0:
			return "db", false
		case 1:
			return fmt.Sprintf("name%d", k.C.Intn(4)), false
		case 2:
			return "дб-ü", true
		case 3:
			return "with space", true
		case 4:
			return "", true
		case 5:
			return ".", true
		case 6:
			return "..", true
		case 7:
			return "a.b.c", true
		case 8:
			if len(roots) > 0 {
				return roots[k.C.Intn(len(roots))], true
			}
			return "zdpuAkfake", true
		case 9:
			return "orbitdb", true
		default:
			return fmt.Sprintf("x%d", k.C.Intn(3)), false
		}
	}
	genName := func() (string, bool) {
		n := k.C.Range(1, 3)
		var segs []string
		special := n > 1
		for i := 0; i < n; i++ {
			s, sp := segment()
			segs = append(segs, s)
			special = special || sp
		}
		name := strings.Join(segs, "/")
		if k.C.Chance(1, 10) {
			name = "/" + name
			special = true
		}
		return name, special
	}
	var inputs []*c14input
	accepted, specials, remoteOK := 0, 0, 0
	var created []*c14input
	ndb := k.C.Range(3, 8)
	if Tier == "thorough" {
		ndb = k.C.Range(3, 16)
	}
	for d := 0; d < ndb; d++ {
		name, special := genName()
		typ := types[k.C.Intn(3)]
		by := k.C.Intn(np)
		var write []string
		explicit := k.C.Chance(2, 3)
		if explicit {
			m := k.C.Range(1, np)
			perm := k.C.Perm(np)
			for _, i := range perm[:m] {
				write = append(write, ids[i])
			}
		}
		mkOpts := func() *orbitdb.DetermineAddressOptions {
			if !explicit {
				return nil
			}
			return &orbitdb.DetermineAddressOptions{AccessController: WriteACL(append([]string(nil), write...)...)}
		}
		// 1. every peer computes the address
		addrs := make([]string, np)
		errs := make([]error, np)
		for pi := 0; pi < np; pi++ {
			pi := pi
			op := k.Do(pi, fmt.Sprintf("determine %q %s", name, typ), 50, func() (interface{}, error) {
				ctx, cancel := OpCtx(time.Minute)
				defer cancel()
				return peers[pi].DB.DetermineAddress(ctx, name, typ, mkOpts())
			})
			if !op.Done {
				k.Failf("C14/determine-hang", "DetermineAddress(%q) on n%d did not return", name, pi)
			}
			errs[pi] = op.Err
			if op.Err == nil {
				a := op.Val.(address.Address)
				addrs[pi] = a.String()
				// 2. printed address parses back to the same root and path
				pa, err := address.Parse(a.String())
				if err != nil {
					k.Failf("C14/parse-roundtrip", "address %q computed for name %q does not parse: %v", a.String(), name, err)
				}
				if !pa.GetRoot().Equals(a.GetRoot()) || pa.GetPath() != a.GetPath() {
					k.Failf("C14/parse-roundtrip", "name %q: address %q (root %s path %q) parses back to root %s path %q", name, a.String(), a.GetRoot(), a.GetPath(), pa.GetRoot(), pa.GetPath())
				}
			}
		}
		if errs[0] != nil {
			for pi := 1; pi < np; pi++ {
				if errs[pi] == nil {
					k.Failf("C14/accept-differs", "name %q is refused on n0 (%v) but accepted on n%d", name, errs[0], pi)
				}
			}
			k.W.Stat("name-refused")
			continue
		}
		accepted++
		if special {
			specials++
		}
		if explicit {
			for pi := 1; pi < np; pi++ {
				if addrs[pi] != addrs[0] {
					k.Failf("C14/not-deterministic", "same inputs (name %q, type %s, write list of %d ids) give %s on n0 but %s on n%d", name, typ, len(write), addrs[0], addrs[pi], pi)
				}
			}
		}
		eff := write
		if !explicit {
			eff = []string{ids[by]}
		}
		in := &c14input{name: name, typ: typ, write: append([]string(nil), eff...), addr: addrs[by], by: by}
		// distinct inputs => distinct addresses
		for _, o := range inputs {
			same := o.name == in.name && o.typ == in.typ && strings.Join(o.write, ",") == strings.Join(in.write, ",")
			if !same && o.addr == in.addr {
				k.Failf("C14/collision", "different inputs share the address %s: (name %q, type %s, %d writers) and (name %q, type %s, %d writers)", in.addr, o.name, o.typ, len(o.write), in.name, in.typ, len(in.write))
			}
			if same && o.addr != in.addr {
				k.Failf("C14/not-deterministic", "equal inputs (name %q) gave %s and later %s", in.name, o.addr, in.addr)
			}
		}
		dupInput := false
		for _, o := range inputs {
			if o.addr == in.addr {
				dupInput = true
			}
		}
		inputs = append(inputs, in)
		if a, err := address.Parse(in.addr); err == nil {
			roots = append(roots, a.GetRoot().String())
		}
		// 3. create on `by`
		createOpts := func(overwrite bool) *orbitdb.CreateDBOptions {
			o := &orbitdb.CreateDBOptions{}
			if explicit {
				o.AccessController = WriteACL(append([]string(nil), write...)...)
			}
			if overwrite {
				t := true
				o.Overwrite = &t
			}
			return o
		}
		cop := k.Do(by, fmt.Sprintf("create %q", name), 100, func() (interface{}, error) {
			ctx, cancel := OpCtx(time.Minute)
			defer cancel()
			return peers[by].DB.Create(ctx, name, typ, createOpts(false))
		})
		if !cop.Done {
			k.Failf("C14/create-hang", "Create(%q) did not return", name)
		}
		if dupInput {
			if cop.Err == nil {
				// the same address already exists locally on `by` only if it was created there
				prev := false
				for _, o := range inputs[:len(inputs)-1] {
					if o.addr == in.addr && o.by == by {
						prev = true
					}
				}
				if prev {
					k.Failf("C14/create-over-existing", "Create(%q) succeeded on n%d although %s already exists there and Overwrite was not set", name, by, in.addr)
				}
			}
			continue
		}
		if cop.Err != nil {
			k.W.Stat("create-refused")
			continue
		}
		st := cop.Val.(iface.Store)
		if st.Address().String() != in.addr {
			k.Failf("C14/create-address", "Create(%q) returned address %s, DetermineAddress said %s", name, st.Address().String(), in.addr)
		}
		c14CheckStore(k, "creator", st, in)
		created = append(created, in)
		// create again: refused without overwrite (store closed first so only the local marker decides)
		if k.C.Chance(1, 2) {
			k.Do(by, "close-store", 50, func() (interface{}, error) { return nil, st.Close() })
			if k.C.Chance(1, 2) {
				// restart the instance in between
				op := k.StopPeer(peers[by])
				for j := 0; j < 100 && !k.IsDone(op); j++ {
					k.Step()
				}
				k.W.Detach(peers[by].Inc)
				np2, err := k.StartPeer(peers[by].Node)
				if err != nil {
					panic(abortPanic{err.Error()})
				}
				peers[by] = np2
				k.W.Stat("restart-before-recreate")
			}
			rop := k.Do(by, fmt.Sprintf("create-again %q", name), 100, func() (interface{}, error) {
				ctx, cancel := OpCtx(time.Minute)
				defer cancel()
				return peers[by].DB.Create(ctx, name, typ, createOpts(false))
			})
			if rop.Done && rop.Err == nil {
				k.Failf("C14/create-over-existing", "second Create(%q) on n%d succeeded although the database exists locally and Overwrite was not set", name, by)
			}
			if k.C.Chance(1, 2) {
				// an overwriting Create that fails half-way (reads of local blocks fail, like a
				// disk error) must leave the existing database known locally
				peers[by].Inc.SetSlowLocal(true)
				saved := k.F
				k.F.FailFetch = 10
				fop := k.Do(by, fmt.Sprintf("create-overwrite-under-read-errors %q", name), 100, func() (interface{}, error) {
					ctx, cancel := OpCtx(time.Minute)
					defer cancel()
					return peers[by].DB.Create(ctx, name, typ, createOpts(true))
				})
				k.F = saved
				peers[by].Inc.SetSlowLocal(false)
				if fop.Done && fop.Err != nil {
					k.W.Stat("overwrite-create-failed-half-way")
					aop := k.Do(by, fmt.Sprintf("create-again-after-failed-overwrite %q", name), 100, func() (interface{}, error) {
						ctx, cancel := OpCtx(time.Minute)
						defer cancel()
						return peers[by].DB.Create(ctx, name, typ, createOpts(false))
					})
					if aop.Done && aop.Err == nil {
						k.Failf("C14/create-over-existing", "Create(%q) without Overwrite succeeded on n%d after an overwriting Create had failed (%v): the existing database was forgotten", name, by, fop.Err)
					}
					lop := k.Do(by, "open-localonly-after-failed-overwrite", 100, func() (interface{}, error) {
						ctx, cancel := OpCtx(time.Minute)
						defer cancel()
						t := true
						return peers[by].DB.Open(ctx, in.addr, &orbitdb.CreateDBOptions{LocalOnly: &t})
					})
					if !lop.Done || lop.Err != nil {
						k.Failf("C14/localonly-known-refused", "Open(LocalOnly) of the existing local database %s was refused on n%d after an overwriting Create had failed (%v): done=%v err=%v", in.addr, by, fop.Err, lop.Done, lop.Err)
					}
					if lop.Done && lop.Err == nil {
						ls := lop.Val.(iface.Store)
						k.Do(by, "close-store", 50, func() (interface{}, error) { return nil, ls.Close() })
					}
				} else if fop.Done && fop.Err == nil {
					fs := fop.Val.(iface.Store)
					k.Do(by, "close-store", 50, func() (interface{}, error) { return nil, fs.Close() })
				}
			}
			oop := k.Do(by, fmt.Sprintf("create-overwrite %q", name), 100, func() (interface{}, error) {
				ctx, cancel := OpCtx(time.Minute)
				defer cancel()
				return peers[by].DB.Create(ctx, name, typ, createOpts(true))
			})
			if !oop.Done || oop.Err != nil {
				k.Failf("C14/overwrite-refused", "Create(%q) with Overwrite failed: done=%v err=%v", name, oop.Done, oop.Err)
			}
		}
		// 4. open on another peer under faults
		other := (by + 1 + k.C.Intn(np-1)) % np
		mode := k.C.Intn(4) // 0 plain, 1 cut until heal, 2 timeout, 3 block fetches that fail (any of the three blocks an Open reads)
		timeout := time.Duration(0)
		if mode == 1 {
			k.Cut(by, other)
			for x := 0; x < np; x++ {
				if x != by && x != other {
					k.Cut(x, other)
				}
			}
		}
		if mode == 2 {
			timeout = time.Duration(k.C.Range(1, 40)) * time.Second
			k.Cut(by, other)
			for x := 0; x < np; x++ {
				if x != by && x != other {
					k.Cut(x, other)
				}
			}
		}
		// local-only open of a database this peer has never seen must fail
		if k.C.Chance(1, 3) {
			// the read of the local-presence marker fails (disk error): the database is still
			// not one this instance has
			nd := peers[other].Node
			k.W.mu.Lock()
			k.W.DiskFault = func(on *Node, kind, space, key string) error {
				if on == nd && kind == "cache-get" && strings.HasSuffix(key, "_manifest") {
					k.W.DiskFault = nil
					k.W.stat("marker-read-failed")
					return fmt.Errorf("sim: disk error on %s", key)
				}
				return nil
			}
			k.W.mu.Unlock()
		}
		lop := k.Do(other, "open-localonly", 50, func() (interface{}, error) {
			ctx, cancel := OpCtx(time.Minute)
			defer cancel()
			t := true
			return peers[other].DB.Open(ctx, in.addr, &orbitdb.CreateDBOptions{LocalOnly: &t})
		})
		k.W.mu.Lock()
		k.W.DiskFault = nil
		k.W.mu.Unlock()
		if lop.Done && lop.Err == nil {
			k.Failf("C14/localonly-unknown-opened", "Open(LocalOnly) of %s succeeded on n%d which never had it", in.addr, other)
		}
		op := k.Go(other, fmt.Sprintf("open %s mode=%d", short(in.addr), mode), func() (interface{}, error) {
			ctx, cancel := OpCtx(10 * time.Minute)
			defer cancel()
			return peers[other].DB.Open(ctx, in.addr, &orbitdb.CreateDBOptions{Timeout: timeout})
		})
		savedF := k.F
		if mode == 3 {
			k.F.FailFetch = k.C.Range(1, 3)
		}
		k.Steps(k.C.Range(2, 12))
		if mode == 1 {
			k.Tick(time.Duration(k.C.Range(1, 20)) * time.Second)
			for x := 0; x < np; x++ {
				if x != other {
					k.Heal(x, other)
				}
			}
		}
		for j := 0; j < 400 && !k.IsDone(op); j++ {
			k.Step()
			if mode == 2 && j%5 == 4 {
				k.Tick(5 * time.Second)
			}
		}
		k.F = savedF
		if mode == 2 {
			for x := 0; x < np; x++ {
				if x != other {
					k.Heal(x, other)
				}
			}
		}
		if !k.IsDone(op) {
			k.Failf("C14/open-hang", "Open(%s) on n%d (mode %d) did not return; pending=%v", in.addr, other, mode, k.PendingDesc())
		}
		if op.Err != nil {
			k.W.Stat("remote-open-failed")
			if mode == 0 {
				k.Failf("C14/open-failed", "Open(%s) on n%d failed on a healthy network: %v", in.addr, other, op.Err)
			}
			// the application tries again once the network is healthy: whatever part of the
			// first attempt had got through (manifest, access-controller manifest, write list),
			// the store it gets now is the database as it was created
			for x := 0; x < np; x++ {
				if x != other {
					k.Heal(x, other)
				}
			}
			rop := k.Do(other, fmt.Sprintf("open %s again", short(in.addr)), 600, func() (interface{}, error) {
				ctx, cancel := OpCtx(10 * time.Minute)
				defer cancel()
				return peers[other].DB.Open(ctx, in.addr, &orbitdb.CreateDBOptions{})
			})
			if !rop.Done || rop.Err != nil {
				k.Failf("C14/open-failed", "Open(%s) on n%d, repeated on a healthy network after a failed attempt (%v), says: done=%v err=%v", in.addr, other, op.Err, rop.Done, rop.Err)
			}
			k.W.Stat("remote-open-repeated-after-failure")
			rst := rop.Val.(iface.Store)
			c14CheckStore(k, fmt.Sprintf("n%d after a remote open repeated after a failed one", other), rst, in)
			k.Do(other, "close-store", 50, func() (interface{}, error) { return nil, rst.Close() })
		} else {
			remoteOK++
			rst := op.Val.(iface.Store)
			c14CheckStore(k, fmt.Sprintf("n%d after remote open", other), rst, in)
			k.Do(other, "close-store", 50, func() (interface{}, error) { return nil, rst.Close() })
		}
	}
	// two databases with different write lists opened at the same time on a fresh peer, the two
	// calls sharing one options value (and thus one access-controller parameter object)
	if len(created) >= 2 && k.C.Chance(1, 2) {
		a := created[k.C.Intn(len(created))]
		b := created[k.C.Intn(len(created))]
		if a.addr != b.addr && fmt.Sprint(a.write) != fmt.Sprint(b.write) {
			for x := 0; x < np; x++ {
				for y := x + 1; y < np; y++ {
					k.Heal(x, y)
				}
			}
			z, err := k.StartPeer(k.W.AddNode())
			if err != nil {
				panic(abortPanic{err.Error()})
			}
			shared := &orbitdb.CreateDBOptions{AccessController: accesscontroller.NewEmptyManifestParams()}
			oa := k.Go(z.Node.Idx, "open-shared-options "+short(a.addr), func() (interface{}, error) {
				ctx, cancel := OpCtx(10 * time.Minute)
				defer cancel()
				return z.DB.Open(ctx, a.addr, shared)
			})
			ob := k.Go(z.Node.Idx, "open-shared-options "+short(b.addr), func() (interface{}, error) {
				ctx, cancel := OpCtx(10 * time.Minute)
				defer cancel()
				return z.DB.Open(ctx, b.addr, shared)
			})
			saved := k.F
			k.F = BenignCfg()
			k.F.ServeAny, k.F.Burst = 3, 2
			for j := 0; j < 600 && !(k.IsDone(oa) && k.IsDone(ob)); j++ {
				k.Step()
			}
			k.F = saved
			if k.IsDone(oa) && k.IsDone(ob) && oa.Err == nil && ob.Err == nil {
				c14CheckStore(k, "fresh peer, concurrent open with shared options", oa.Val.(iface.Store), a)
				c14CheckStore(k, "fresh peer, concurrent open with shared options", ob.Val.(iface.Store), b)
				k.W.Stat("concurrent-opens-sharing-options")
			}
			k.StopPeer(z)
		}
	}
	// the open-or-create helpers (Log, KeyValue, Docs) called at the same time with one options
	// value: each must come back with a store of its own type
	if k.C.Chance(1, 3) {
		z := peers[k.C.Intn(np)]
		shared := &orbitdb.CreateDBOptions{}
		type hres struct {
			typ string
			st  iface.Store
		}
		calls := []struct {
			name string
			f    func(ctx context.Context) (iface.Store, error)
		}{
			{"eventlog", func(ctx context.Context) (iface.Store, error) { return z.DB.Log(ctx, "helper-log", shared) }},
			{"keyvalue", func(ctx context.Context) (iface.Store, error) { return z.DB.KeyValue(ctx, "helper-kv", shared) }},
			{"docstore", func(ctx context.Context) (iface.Store, error) { return z.DB.Docs(ctx, "helper-docs", shared) }},
		}
		var ops []*Op
		var typs []string
		for _, i := range k.C.Perm(3)[:k.C.Range(2, 3)] {
			cl := calls[i]
			typs = append(typs, cl.name)
			ops = append(ops, k.Go(z.Node.Idx, "helper "+cl.name, func() (interface{}, error) {
				ctx, cancel := OpCtx(time.Minute)
				defer cancel()
				st, err := cl.f(ctx)
				if err != nil {
					return nil, err
				}
				return &hres{cl.name, st}, nil
			}))
		}
		k.Wait()
		for j := 0; j < 200; j++ {
			done := true
			for _, o := range ops {
				done = done && k.IsDone(o)
			}
			if done {
				break
			}
			k.Step()
		}
		for i, o := range ops {
			if !k.IsDone(o) {
				k.Failf("C14/helper-hang", "%s helper did not return", typs[i])
			}
			if o.Err != nil {
				k.Failf("C14/helper-error", "the %s helper, called at the same time as the others with one options value, failed: %v", typs[i], o.Err)
			}
			if r := o.Val.(*hres); r.st.Type() != r.typ {
				k.Failf("C14/type-differs", "the %s helper returned a store of type %s", r.typ, r.st.Type())
			}
		}
		k.W.Stat("helpers-called-together-with-one-options-value")
	}
	// one options value (access-controller parameters given, no write list) used by two peers
	// one after the other: each creator's own id is the default, so each gets its own
	// database, at the address it computes for these inputs without that options value
	if k.C.Chance(1, 3) {
		shared := &orbitdb.CreateDBOptions{AccessController: accesscontroller.NewEmptyManifestParams()}
		typ := []string{"keyvalue", "eventlog", "docstore"}[k.C.Intn(3)]
		for _, pi := range []int{0, 1} {
			pi := pi
			op := k.Do(pi, "create-with-reused-options", 100, func() (interface{}, error) {
				ctx, cancel := OpCtx(time.Minute)
				defer cancel()
				return peers[pi].DB.Create(ctx, "reused-options", typ, shared)
			})
			if !op.Done || op.Err != nil {
				k.Failf("C14/create-error", "Create with an options value used before by another peer failed: done=%v err=%v", op.Done, op.Err)
			}
			st := op.Val.(iface.Store)
			own := peers[pi].DB.Identity().ID
			w, _ := st.AccessController().GetAuthorizedByRole("write")
			if len(w) != 1 || w[0] != own {
				k.Failf("C14/write-list-differs", "peer %d created a database with no write list given (options value used before by another peer): its write list is %v, expected its own id only", pi, shortIDs(w))
			}
			aop := k.Do(pi, "determine-address", 100, func() (interface{}, error) {
				ctx, cancel := OpCtx(time.Minute)
				defer cancel()
				return peers[pi].DB.DetermineAddress(ctx, "reused-options", typ, nil)
			})
			if aop.Done && aop.Err == nil && aop.Val.(address.Address).String() != st.Address().String() {
				k.Failf("C14/address-differs", "peer %d: the database created with a reused options value is at %s, the address computed from the same inputs is %s", pi, short(st.Address().String()), short(aop.Val.(address.Address).String()))
			}
		}
		k.W.Stat("options-value-reused-by-two-peers")
	}
	k.Notes["accepted_names"] = accepted
	k.Notes["special_names"] = specials
	k.Notes["remote_opens_ok"] = remoteOK
	k.Notes["nontrivial"] = accepted >= 3 && remoteOK >= 1 && specials >= 1
	for _, p := range peers {
		k.StopPeer(p)
	}
}

func c14CheckStore(k *K, who string, st iface.Store, in *c14input) {
	if st.Type() != in.typ {
		k.Failf("C14/type-differs", "%s: store opened at %s has type %s, created as %s (name %q)", who, in.addr, st.Type(), in.typ, in.name)
	}
	w, err := st.AccessController().GetAuthorizedByRole("write")
	if err != nil {
		k.Failf("C14/acl-error", "%s: %v", who, err)
	}
	got := append([]string(nil), w...)
	want := append([]string(nil), in.write...)
	sort.Strings(got)
	sort.Strings(want)
	if !EqStrs(got, want) {
		k.Failf("C14/write-list-differs", "%s: store opened at %s (name %q) has %d writers %v, created with %d writers %v", who, in.addr, in.name, len(got), shortIDs(got), len(want), shortIDs(want))
	}
}

func shortIDs(ids []string) []string {
	out := make([]string, len(ids))
	for i, s := range ids {
		if len(s) > 10 {
			s = s[:10]
		}
		out[i] = s
	}
	return out
}

func init() {
	Register(&Scenario{Prop: "C14", Name: "cache-manager-race", Run: scenC14CacheRace, Weight: 1,
		Rule: "one instance on the repository's own cache manager (cacheleveldown, leveldb in memory, inside the bubble: its code takes part in the seeded interleavings); for each of 1-3 names an Open of the database's address and the Create of the database run at the same time (the Open may start first and find nothing yet); oracle: Create succeeds; afterwards a local-only Open of the address succeeds and a second Create without overwrite is refused (the database is locally known); for half the names the handles then go one by one with a Create that overwrites in between (close the created handle, Create with overwrite, close the older handle from the local-only Open, i.e. a second close of an already released cache): the database created anew stays locally known (Create without overwrite refused, local-only Open succeeds); every run counts as non-trivial (the two calls of a pair start 0-3 kernel steps apart)"})
}

// WithRealMemoryCache makes the instance use the repository's cacheleveldown manager with
// in-memory leveldb stores instead of the simulated datastore.
func WithRealMemoryCache() PeerOpt {
	return func(p *Peer, o *orbitdb.NewOrbitDBOptions) {
		dir := cacheleveldown.InMemoryDirectory
		o.Directory = &dir
		o.Cache = cacheleveldown.New(nil)
	}
}

func scenC14CacheRace(k *K) {
	z, err := k.StartPeer(k.W.AddNode(), WithRealMemoryCache())
	if err != nil {
		panic(abortPanic{err.Error()})
	}
	overlapped := 0
	no := false
	for i, m := 0, k.C.Range(1, 3); i < m; i++ {
		name := fmt.Sprintf("race-%d", i)
		typ := []string{"keyvalue", "eventlog", "docstore"}[k.C.Intn(3)]
		aop := k.Do(0, "determine-address", 100, func() (interface{}, error) {
			ctx, cancel := OpCtx(time.Minute)
			defer cancel()
			return z.DB.DetermineAddress(ctx, name, typ, nil)
		})
		if !aop.Done || aop.Err != nil {
			panic(abortPanic{fmt.Sprint(aop.Err)})
		}
		addr := aop.Val.(address.Address).String()
		start := func(which int) *Op {
			if which == 0 {
				return k.Go(0, "open "+name, func() (interface{}, error) {
					ctx, cancel := OpCtx(30 * time.Second)
					defer cancel()
					return z.DB.Open(ctx, addr, &orbitdb.CreateDBOptions{Replicate: &no})
				})
			}
			return k.Go(0, "create "+name, func() (interface{}, error) {
				ctx, cancel := OpCtx(time.Minute)
				defer cancel()
				return z.DB.Create(ctx, name, typ, &orbitdb.CreateDBOptions{Replicate: &no})
			})
		}
		first := k.C.Intn(2)
		ops := [2]*Op{}
		ops[first] = start(first)
		for j, g := 0, k.C.Intn(4); j < g; j++ {
			k.Step()
		}
		ops[1-first] = start(1 - first)
		k.Wait()
		for j := 0; j < 200 && !k.IsDone(ops[1]); j++ {
			k.Step()
		}
		if !k.IsDone(ops[1]) {
			k.Failf("C14/create-hang", "Create of %q, started together with an Open of its address, did not return", name)
		}
		if !k.IsDone(ops[0]) {
			overlapped++
		}
		// the Open may fail (nothing to open yet when it looked) or succeed; it has to return
		for j := 0; j < 200 && !k.IsDone(ops[0]); j++ {
			k.Step()
		}
		if !k.IsDone(ops[0]) {
			k.Tick(35 * time.Second)
		}
		if !k.IsDone(ops[0]) {
			k.Failf("C14/open-hang", "Open of the address of %q, started together with its Create, did not return", name)
		}
		if ops[1].Err != nil {
			if ops[0].Err == nil {
				// the Open got there first and created nothing: Create over an open store of the
				// same address is refused, which is fine
				continue
			}
			k.Failf("C14/create-error", "Create of %q failed: %v (the concurrent Open: %v)", name, ops[1].Err, ops[0].Err)
		}
		yes := true
		lop := k.Do(0, "open-local-only "+name, 100, func() (interface{}, error) {
			ctx, cancel := OpCtx(time.Minute)
			defer cancel()
			return z.DB.Open(ctx, addr, &orbitdb.CreateDBOptions{Replicate: &no, LocalOnly: &yes})
		})
		if !lop.Done || lop.Err != nil {
			k.Failf("C14/localonly-known-refused", "%q was created on this instance (an Open of its address ran at the same time: %v), but a local-only Open says: done=%v err=%v", name, ops[0].Err, lop.Done, lop.Err)
		}
		cop := k.Do(0, "create-again "+name, 100, func() (interface{}, error) {
			ctx, cancel := OpCtx(time.Minute)
			defer cancel()
			return z.DB.Create(ctx, name, typ, &orbitdb.CreateDBOptions{Replicate: &no})
		})
		if cop.Done && cop.Err == nil {
			k.Failf("C14/second-create-accepted", "%q exists locally, a second Create without overwrite was accepted", name)
		}
		if k.C.Chance(1, 2) {
			// the handles go one by one, with a Create that overwrites in between: the handle
			// from the Create is closed, the database is created anew (overwrite), then the
			// older handle from the local-only Open is closed (a second close of what the first
			// close had already released). The database created anew is still locally known
			k.W.Stat("stale-handle-closed-after-recreate")
			closeStore := func(v interface{}, what string) {
				st, _ := v.(iface.Store)
				if st == nil {
					return
				}
				op := k.Do(0, what, 100, func() (interface{}, error) { return nil, st.Close() })
				if !op.Done {
					k.Failf("C14/close-hang", "%s of %q did not return", what, name)
				}
			}
			closeStore(ops[1].Val, "close-created-handle")
			yesOverwrite := true
			rop := k.Do(0, "create-overwrite "+name, 100, func() (interface{}, error) {
				ctx, cancel := OpCtx(time.Minute)
				defer cancel()
				return z.DB.Create(ctx, name, typ, &orbitdb.CreateDBOptions{Replicate: &no, Overwrite: &yesOverwrite})
			})
			if !rop.Done || rop.Err != nil {
				k.Failf("C14/create-error", "Create with overwrite of %q after its first handle was closed: done=%v err=%v", name, rop.Done, rop.Err)
			}
			closeStore(lop.Val, "close-older-handle")
			cop2 := k.Do(0, "create-again-2 "+name, 100, func() (interface{}, error) {
				ctx, cancel := OpCtx(time.Minute)
				defer cancel()
				return z.DB.Create(ctx, name, typ, &orbitdb.CreateDBOptions{Replicate: &no})
			})
			if cop2.Done && cop2.Err == nil {
				k.Failf("C14/second-create-accepted", "%q was created anew (overwrite) and is open; after an older handle of it was closed a Create without overwrite was accepted", name)
			}
			lop2 := k.Do(0, "open-local-only-2 "+name, 100, func() (interface{}, error) {
				ctx, cancel := OpCtx(time.Minute)
				defer cancel()
				return z.DB.Open(ctx, addr, &orbitdb.CreateDBOptions{Replicate: &no, LocalOnly: &yes})
			})
			if !lop2.Done || lop2.Err != nil {
				k.Failf("C14/localonly-known-refused", "%q was created anew (overwrite) and is open; after an older handle of it was closed a local-only Open says: done=%v err=%v", name, lop2.Done, lop2.Err)
			}
		}
	}
	k.Notes["overlapped"] = overlapped
	k.Notes["nontrivial"] = true
	k.StopPeer(z)
}
