package sim

import _ "unsafe" // go:linkname

// verifSetDet is provided by the runtime overlay (bin/mkoverlay): while on, same-instant
// synctest timers, select among ready cases and map seeds/iteration offsets of goroutines
// inside a bubble are drawn from a splitmix64 stream starting at seed.
//
//go:linkname verifSetDet runtime.verifSetDet
func verifSetDet(on bool, seed uint64)

// verifGoid (runtime overlay) returns the id of the calling goroutine.
//
//go:linkname verifGoid runtime.verifGoid
func verifGoid() uint64
