package sim

import (
	"context"
	"fmt"
	"time"

	ipfslog "berty.tech/go-ipfs-log"
	orbitdb "berty.tech/go-orbit-db"
	"berty.tech/go-orbit-db/accesscontroller"
	"berty.tech/go-orbit-db/iface"
	"berty.tech/go-orbit-db/stores/operation"
)

// WriteRec is what the kernel observed about one acknowledged write.
type WriteRec struct {
	Name  string // run-stable name (operation text)
	Node  int
	Hash  string
	Seen  map[string]bool // hashes the writer's log held when it wrote (causal past)
	Clock int
	OpID  int
	EffAt int // effects on the writer's disk when the call returned
}

// Cluster: N real OrbitDB instances with one database of a given type opened on all of them.
type Cluster struct {
	K          *K
	Peers      []*Peer
	Stores     []iface.Store // Stores[i] is peer i's replica (nil when down)
	Addr       string
	Type       string
	Writes     []*WriteRec
	ByHash     map[string]*WriteRec
	CreateOpts func(i int) *orbitdb.CreateDBOptions
	PeerOpts   []PeerOpt
	// GapFill: the first 1-3 remote fetches of about half the acknowledged entries fail, so
	// that ancestors reach other replicas after their descendants, in batches of their own
	GapFill    bool
	GapFillMax int // most failures per entry (default 3)
	FlakyOpen  bool
	// BurstCancel: in a write burst the kernel may cancel the context of a writer that sits
	// between two of its write-path steps (the client gave up); such a write may fail, and its
	// entry may or may not be in the log (Maybe)
	BurstCancel bool
	// OnBurstStep, when set, is called at every quiescent point of a write burst with the
	// entries of the writers that have returned successfully so far
	OnBurstStep func(node int, acked []ipfslog.Entry)
	Maybe       map[string]bool
	wseq        []int
}

type ClusterCfg struct {
	N          int
	Type       string // keyvalue | eventlog | docstore
	Name       string
	Writers    []int // indexes allowed to write; nil = all
	CreateOpts func(i int) *orbitdb.CreateDBOptions
	PeerOpts   []PeerOpt
	OpenSteps  int
	// ACL, when set, builds the access-controller parameters from the writers' identity ids
	// (nil result = none given, i.e. creator-only default)
	ACL      func(ids []string) accesscontroller.ManifestParams
	ExtraIDs []string // further ids put on the write list (e.g. a colluding adversary)
	// FlakyOpen: block fetches fail while the other peers open the database (manifest, access
	// controller, write list); a failed Open is retried on the same instance, the third
	// attempt runs fault-free
	FlakyOpen bool
}

func (k *K) NewCluster(cfg ClusterCfg) *Cluster {
	c := &Cluster{K: k, Type: cfg.Type, ByHash: map[string]*WriteRec{}, Maybe: map[string]bool{}, CreateOpts: cfg.CreateOpts, PeerOpts: cfg.PeerOpts, FlakyOpen: cfg.FlakyOpen}
	if cfg.Name == "" {
		cfg.Name = "db"
	}
	for i := 0; i < cfg.N; i++ {
		n := k.W.AddNode()
		p, err := k.StartPeer(n, cfg.PeerOpts...)
		if err != nil {
			panic(abortPanic{"start peer: " + err.Error()})
		}
		c.Peers = append(c.Peers, p)
	}
	c.Stores = make([]iface.Store, cfg.N)
	c.wseq = make([]int, cfg.N)
	var ids []string
	if cfg.Writers == nil {
		for _, p := range c.Peers {
			ids = append(ids, p.DB.Identity().ID)
		}
	} else {
		for _, i := range cfg.Writers {
			ids = append(ids, c.Peers[i].DB.Identity().ID)
		}
	}
	op := k.Do(0, "create", 50, func() (interface{}, error) {
		ctx, cancel := OpCtx(60 * time.Second)
		defer cancel()
		o := c.createOpts(0)
		ids = append(ids, cfg.ExtraIDs...)
		if cfg.ACL != nil {
			if acl := cfg.ACL(ids); acl != nil {
				o.AccessController = acl
			}
		} else {
			o.AccessController = WriteACL(ids...)
		}
		return c.Peers[0].DB.Create(ctx, cfg.Name, cfg.Type, o)
	})
	if !op.Done || op.Err != nil {
		panic(abortPanic{fmt.Sprintf("create failed: done=%v err=%v", op.Done, op.Err)})
	}
	c.Stores[0] = op.Val.(iface.Store)
	c.Addr = c.Stores[0].Address().String()
	c.Peers[0].Stores[c.Addr] = c.Stores[0]
	steps := cfg.OpenSteps
	if steps == 0 {
		steps = 400
	}
	for i := 1; i < cfg.N; i++ {
		c.OpenOn(i, steps)
	}
	return c
}

func (c *Cluster) createOpts(i int) *orbitdb.CreateDBOptions {
	if c.CreateOpts != nil {
		if o := c.CreateOpts(i); o != nil {
			return o
		}
	}
	return &orbitdb.CreateDBOptions{}
}

// OpenOn opens the database on peer i (remote open: manifest and access controller are
// fetched through the simulated exchange, so the kernel keeps stepping meanwhile).
func (c *Cluster) OpenOn(i int, steps int) {
	k := c.K
	for attempt := 0; ; attempt++ {
		saved := k.F
		flaky := c.FlakyOpen && attempt < 2
		if flaky {
			k.F.FailFetch = 3
		}
		op := k.Do(i, "open", steps, func() (interface{}, error) {
			ctx, cancel := OpCtx(10 * time.Minute)
			defer cancel()
			return c.Peers[i].DB.Open(ctx, c.Addr, c.createOpts(i))
		})
		k.F = saved
		if op.Done && op.Err == nil {
			c.Stores[i] = op.Val.(iface.Store)
			c.Peers[i].Stores[c.Addr] = c.Stores[i]
			return
		}
		if !op.Done || !flaky {
			panic(abortPanic{fmt.Sprintf("open on n%d failed: done=%v err=%v pending=%v", i, op.Done, op.Err, k.PendingDesc())})
		}
		k.W.Stat("open-failed-then-retried")
	}
}

// NextVal returns a unique value tag for a write by node i.
func (c *Cluster) NextVal(i int) string {
	c.wseq[i]++
	return fmt.Sprintf("w%d.%d", i, c.wseq[i])
}

// RecordWrite registers an acknowledged write and the causal past of its writer.
func (c *Cluster) RecordWrite(i int, op *Op, e ipfslog.Entry, seen map[string]bool) *WriteRec {
	r := &WriteRec{Name: EntryName(e), Node: i, Hash: e.GetHash().String(), Seen: seen, Clock: e.GetClock().GetTime(), OpID: op.ID, EffAt: op.EffAt}
	c.Writes = append(c.Writes, r)
	c.ByHash[r.Hash] = r
	if c.GapFill && c.K.C.Chance(1, 2) {
		c.K.W.mu.Lock()
		hi := 3
		if c.GapFillMax > 0 {
			hi = c.GapFillMax
		}
		c.K.W.FailWant[r.Hash] = c.K.C.Range(1, hi)
		c.K.W.mu.Unlock()
	}
	return r
}

// Write performs one local write through f (which must call the store's write method and
// return the resulting operation) and records it. Local writes need no kernel help.
func (c *Cluster) Write(i int, name string, f func(ctx context.Context) (operation.Operation, error)) (*WriteRec, error) {
	k := c.K
	seen := LogHashSet(c.Stores[i])
	op := k.Do(i, name, 20, func() (interface{}, error) {
		ctx, cancel := OpCtx(60 * time.Second)
		defer cancel()
		return f(ctx)
	})
	if !op.Done {
		k.Failf("write/hang", "local write %s on n%d did not return: pending=%v", name, i, k.PendingDesc())
	}
	if op.Err != nil {
		return nil, op.Err
	}
	o := op.Val.(operation.Operation)
	return c.RecordWrite(i, op, o.GetEntry(), seen), nil
}

// CheckCausalOrder: on every replica, an entry follows everything its writer had seen.
func (c *Cluster) CheckCausalOrder(sigPrefix string) {
	for ri, s := range c.Stores {
		if s == nil {
			continue
		}
		pos := map[string]int{}
		for i, e := range LogValues(s) {
			pos[e.GetHash().String()] = i
		}
		for _, wr := range c.Writes {
			pb, ok := pos[wr.Hash]
			if !ok {
				continue
			}
			for h := range wr.Seen {
				if pa, ok := pos[h]; ok && pa > pb {
					c.K.Failf(sigPrefix+"/causal-order", "replica n%d lists %s (pos %d) before %s (pos %d) although the writer had seen the latter", ri, wr.Name, pb, c.nameOf(h), pa)
				}
			}
		}
	}
}

func (c *Cluster) nameOf(h string) string {
	if r, ok := c.ByHash[h]; ok {
		return r.Name
	}
	return h
}

// FetchFailures switches on, per run, failing block fetches (1 run in 3: a kernel action that
// fails a pending fetch; 1 run in 3: gap-fill mode). Failed fetches are retried by the
// replicator on the next announcement.
func (c *Cluster) FetchFailures() {
	k := c.K
	if k.C.Chance(1, 3) {
		k.F.FailFetch = k.C.Range(1, 3)
	}
	if k.C.Chance(1, 3) {
		c.GapFill = true
		k.W.Stat("mode:gap-fill")
	}
}

// AllIdle: true when every live replica's replicator reports no queued/fetching work
// (decided by the verif accessor when available).
func (c *Cluster) AllIdle() bool {
	for _, s := range c.Stores {
		if s != nil && !ReplicatorIdle(s) {
			return false
		}
	}
	return true
}

// CloseAll closes every instance (end of run).
func (c *Cluster) CloseAll() {
	for _, p := range c.Peers {
		if p != nil && p.Inc.live() {
			c.K.StopPeer(p)
		}
	}
}
