package sim

import (
	"context"
	"fmt"
	"strings"
	"time"

	ipfslog "berty.tech/go-ipfs-log"
	"berty.tech/go-orbit-db/iface"
	"berty.tech/go-orbit-db/stores/operation"
)

func init() {
	Register(&Scenario{Prop: "C06", Name: "kv-lww", Run: scenC06, SoftParks: true, Weight: 1,
		Rule: "1-3 replicas of a key-value store (one operation in ten arms a disk error for the next write of the merged heads on one replica: the merge itself stands, view and log must still agree); 3-14 (thorough 3-40) Put/Delete on 1-5 keys (repeated keys, deletes of absent keys, re-puts, empty and binary values), one operation in five a burst of 2-3 concurrent local writers stepped through the write path or free-running (the client of one of them may give up mid-write: its context is cancelled while it sits between two steps), 0-2 readers (Get of one key, All) run beside the writers of a burst and, one operation in four, beside the merges of the following steps (what All returns must be the view of one state between its call and its return: the replay of the entries the view last agreed with plus any subset of those that came since); with replication under the swarm faults, failing fetches / gap-fill and kernel stalls; while a burst is under way, at every point where all its writers are at rest or parked, the view must hold what the writers that have returned wrote (replay of a part of the log that includes their entries); at every quiescent step each replica's Get/All must equal the last-writer-wins replay of its own log by the independent model, and the log order must respect the causal past recorded by the kernel; non-trivial = >=3 writes and (with several replicas) >=1 replicated entry"})
}

var c06Keys = []string{"a", "b", "ключ", "k k", "z/1"}

// swarmFaults draws a per-run fault configuration: each kind is enabled for a random subset
// of runs, rates kept low enough that most steps make progress.
func swarmFaults(k *K, allowLoss bool) FaultCfg {
	f := BenignCfg()
	f.Deliver = k.C.Range(2, 8)
	f.Serve = k.C.Range(2, 8)
	f.Refresh = k.C.Range(1, 6)
	f.Tick = k.C.Range(1, 4)
	f.Stream = k.C.Range(2, 8)
	if k.C.Chance(2, 3) {
		f.Reorder = k.C.Range(1, 6)
	}
	if k.C.Chance(2, 3) {
		f.ServeAny = k.C.Range(1, 6)
	}
	if allowLoss && k.C.Chance(1, 2) {
		f.Drop = k.C.Range(1, 2)
	}
	if k.C.Chance(1, 2) {
		f.Dup = k.C.Range(1, 2)
	}
	if k.C.Chance(1, 3) {
		f.Cut = 1
		f.Heal = 2
	}
	if k.C.Chance(1, 6) {
		f.Jump = 1
	}
	if k.C.Chance(1, 2) {
		f.Burst = k.C.Range(1, 3)
	}
	k.W.EagerFetch = k.C.Chance(1, 4)
	if k.W.EagerFetch {
		k.W.Stat("mode:eager-fetch")
	}
	return f
}

func scenC06(k *K) {
	n := k.C.Range(1, 3)
	c := k.NewCluster(ClusterCfg{N: n, Type: "keyvalue"})
	k.F = swarmFaults(k, true)
	c.FetchFailures()
	nkeys := k.C.Range(1, len(c06Keys))
	nops := k.C.Range(3, 14)
	if Tier == "thorough" {
		nops = k.C.Range(3, 40)
	}
	agreed := map[int]map[string]bool{}
	check := func(where string) {
		for i, s := range c.Stores {
			if s == nil {
				continue
			}
			if k.opsInFlightOn(i) > 0 {
				continue // a write that has not returned may be in the log and not yet in the view
			}
			checkKVReplica(k, i, s.(iface.KeyValueStore), where)
			agreed[i] = LogHashSet(s)
		}
		c.CheckCausalOrder("C06")
	}
	k.Invariant = func() { check("step") }
	// a Put or Delete that has returned is in the view from then on, whatever other writers
	// of the same burst are still doing (parked between their append and their rebuild, or
	// not there yet): the view is the replay of the entries it last agreed with, the entries
	// of the writers that have returned, and some of the rest of the log
	c.OnBurstStep = func(node int, acked []ipfslog.Entry) {
		if len(acked) == 0 {
			return
		}
		kv, _ := c.Stores[node].(iface.KeyValueStore)
		if kv == nil {
			return
		}
		base := map[string]bool{}
		for h := range agreed[node] {
			base[h] = true
		}
		for _, e := range acked {
			base[e.GetHash().String()] = true
		}
		k.W.Stat("view-judged-while-other-writers-in-flight")
		if ok, why := ReadAtSomeState(k, kv, base, KVState(kv)); !ok {
			k.Failf("C06/acked-write-not-in-view", "n%d: %d writer(s) of a burst have returned (%v) while others are still at work, and All()=%s is not the replay of any part of the log that holds their entries (%s)", node, len(acked), EntryNames(acked), MapStr(KVState(kv)), why)
		}
	}
	overrides := 0
	c.BurstCancel = k.C.Chance(1, 2)
	readerBase := map[*Op]map[string]bool{}
	readerNode := map[*Op]int{}
	startReaders := func(m, node int) []*Op {
		var rs []*Op
		kv, _ := c.Stores[node].(iface.KeyValueStore)
		if kv == nil {
			return nil
		}
		for r := 0; r < m; r++ {
			all, key := k.C.Chance(1, 2), c06Keys[k.C.Intn(nkeys)]
			op := k.Go(node, "read-during-changes", func() (interface{}, error) {
				if all {
					return kv.All(), nil
				}
				return kv.Get(context.Background(), key)
			})
			// the entries the view last agreed with before this reader started
			readerBase[op], readerNode[op] = agreed[node], node
			rs = append(rs, op)
		}
		return rs
	}
	finishReaders := func(rs []*Op) {
		for _, r := range rs {
			for j := 0; j < 50 && !k.IsDone(r); j++ {
				k.Step()
			}
			if !k.IsDone(r) {
				k.Failf("C06/read-hang", "a Get/All started while writes or merges were under way did not return")
			}
			if r.Err != nil {
				k.Failf("C06/read-error", "a Get/All that ran while writes or merges were under way failed: %v", r.Err)
			}
			k.W.Stat("read-concurrent-with-changes")
			// All() is one reading of the view: what it gives is the view of one state between
			// the call and the return
			if m, isAll := r.Val.(map[string][]byte); isAll && c.Stores[readerNode[r]] != nil {
				got := map[string]string{}
				for key, v := range m {
					got[key] = string(v)
				}
				if ok, why := ReadAtSomeState(k, c.Stores[readerNode[r]], readerBase[r], got); !ok {
					k.Failf("C06/read-matches-no-state", "n%d: All() that ran beside writes or merges returned %s, the view of no state between its call and its return (%s)", readerNode[r], MapStr(got), why)
				}
			}
		}
	}
	for i := 0; i < nops; i++ {
		node := k.C.Intn(n)
		if n > 1 && k.C.Chance(1, 10) {
			// the next write of the merged heads to the cache fails on one replica (disk error
			// at the end of a merge): what was merged is in its log, and in its view
			nd := c.Peers[k.C.Intn(n)].Node
			k.W.mu.Lock()
			k.W.DiskFault = func(on *Node, kind, space, key string) error {
				if on == nd && kind == "cache-put" && strings.HasSuffix(key, "_remoteHeads") {
					k.W.DiskFault = nil
					k.W.stat("merge-heads-write-failed")
					return fmt.Errorf("sim: disk error on %s", key)
				}
				return nil
			}
			k.W.mu.Unlock()
			k.cleanups = append(k.cleanups, func() { k.W.mu.Lock(); k.W.DiskFault = nil; k.W.mu.Unlock() })
		}
		if k.C.Chance(1, 5) {
			// concurrent local writers; the client of one of them may give up mid-write.
			// 0-2 readers (Get of one key, or All) run beside them: whatever they are given,
			// the view is the replay of the log again once nobody is at work
			readers := startReaders(k.C.Range(0, 2), node)
			c.WriteBurst(node, k.C.Range(2, 3), k.C.Chance(1, 2))
			finishReaders(readers)
			k.Steps(k.C.Intn(6))
			check("after-burst")
			continue
		}
		key := c06Keys[k.C.Intn(nkeys)]
		kv := c.Stores[node].(iface.KeyValueStore)
		if k.C.Chance(1, 4) {
			_, err := c.Write(node, "del "+key, func(ctx context.Context) (operation.Operation, error) { return kv.Delete(ctx, key) })
			if err != nil {
				k.Failf("C06/write-error", "delete by authorised writer failed: %v", err)
			}
		} else {
			val := c.NextVal(node)
			switch k.C.Intn(8) {
			case 0:
				val = "" // empty value
			case 1:
				val = val + "\x00\xff\xfe" // binary
			}
			prev, _ := kv.Get(context.Background(), key)
			wr, err := c.Write(node, fmt.Sprintf("put %s=%q", key, val), func(ctx context.Context) (operation.Operation, error) { return kv.Put(ctx, key, []byte(val)) })
			if err != nil {
				k.Failf("C06/write-error", "put by authorised writer failed: %v", err)
			}
			if prev != nil && len(wr.Seen) > 0 {
				overrides++
			}
			// the writer sees its own write at once, unless entries it had not seen were
			// merged concurrently (then the invariant's LWW replay is the only yardstick)
			if len(LogHashSet(kv)) == len(wr.Seen)+1 {
				if got, _ := kv.Get(context.Background(), key); string(got) != val {
					k.Failf("C06/read-your-write", "n%d Get(%q)=%q right after Put of %q", node, key, got, val)
				}
			}
		}
		// a reader on some replica while merges of the next steps run
		var readers []*Op
		if k.C.Chance(1, 4) {
			readers = startReaders(1, k.C.Intn(n))
		}
		k.Steps(k.C.Intn(6))
		finishReaders(readers)
		check("after-op")
	}
	k.Settle(90*time.Second, 3000, c.AllIdle)
	check("rest")
	// non-trivial: some replication happened and some key was overridden after being seen
	repl := 0
	for i, s := range c.Stores {
		for _, e := range LogValues(s) {
			if r, ok := c.ByHash[e.GetHash().String()]; ok && r.Node != i {
				repl++
			}
		}
	}
	k.Notes["replicated_entries"] = repl
	k.Notes["writes"] = len(c.Writes)
	k.Notes["nontrivial"] = len(c.Writes) >= 3 && (n == 1 || repl > 0)
	c.CloseAll()
}

func checkKVReplica(k *K, i int, kv iface.KeyValueStore, where string) {
	vals := LogValues(kv)
	want := ReplayLWW(vals)
	got := KVState(kv)
	// entries may have been joined after All() was computed only if the SUT is running; at a
	// quiescent point log and index must agree.
	if !EqMap(want, got) {
		k.Failf("C06/lww-mismatch", "%s: n%d All()=%s but LWW replay of its %d-entry log gives %s; log=%v", where, i, MapStr(got), len(vals), MapStr(want), LogNames(kv))
	}
	for key, v := range want {
		g, err := kv.Get(context.Background(), key)
		if err != nil || string(g) != v {
			k.Failf("C06/get-mismatch", "%s: n%d Get(%q)=%q err=%v, replay gives %q", where, i, key, g, err, v)
		}
	}
	for _, key := range c06Keys {
		if _, ok := want[key]; !ok {
			if g, _ := kv.Get(context.Background(), key); g != nil {
				k.Failf("C06/get-mismatch", "%s: n%d Get(%q)=%q but replay has no such key", where, i, key, g)
			}
		}
	}
}

// transportOpt draws the direct-channel implementation of a run: the default pubsub-based
// oneonone adapter or the libp2p-stream adapter over the stub host (kernel-chunked streams).
func transportOpt(k *K) []PeerOpt {
	if k.C.Chance(1, 2) {
		k.W.Stat("transport:directchannel-streams")
		return []PeerOpt{WithDirectChannelStreams()}
	}
	k.W.Stat("transport:oneonone")
	return nil
}
