package sim

import (
	"fmt"
	"strings"
	"time"

	"berty.tech/go-orbit-db/iface"
)

func init() {
	Register(&Scenario{Prop: "C19", Name: "progress-monotone", Run: scenC19, SoftParks: true, Weight: 1,
		Rule: "1-3 writer replicas, one database per instance (type drawn per run); 3-14 (thorough 3-40) writes (single, or 1-3 concurrent local writers stopped at the write-path points while replication goes on) with replication under faults (including block fetches that end with an error), Load(-1) called on a running replica beside a replication round (preferably one whose log is still empty), local writes whose cache write fails with a disk error (the entry is in the log, the call reports the error), far-ahead heads (one writer runs ahead while links are cut), clean restart + Load(-1) or (1 in 3) SaveSnapshot + clean restart + LoadFromSnapshot, the heads write at the end of a merge failing with a disk error, progress events held back behind the end of their replication (1 run in 3); GetProgress/GetMax sampled on every open store after every kernel step must never decrease; whenever the world is at rest and a replica's log is complete: progress == max and maxLamport <= progress <= Len; non-trivial = >=3 writes, >=1 at-rest check on a replica that replicated >=1 entry (or single replica), >=20 samples"})
}

func scenC19(k *K) {
	types := []string{"keyvalue", "eventlog", "docstore"}
	typ := types[k.C.Intn(3)]
	n := k.C.Range(1, 3)
	c := k.NewCluster(ClusterCfg{N: n, Type: typ})
	k.F = swarmFaults(k, true)
	// block fetches that end with an error (a third of the runs each: pending fetches failed by
	// the kernel; the first fetches of about half the entries): a replication round may end
	// with less than was announced
	c.FetchFailures()
	nops := k.C.Range(3, 14)
	if Tier == "thorough" {
		nops = k.C.Range(3, 40)
	}
	type pm struct{ p, m int }
	last := map[iface.Store]pm{}
	samples := 0
	k.Invariant = func() {
		for i, s := range c.Stores {
			if s == nil {
				continue
			}
			cur := pm{s.ReplicationStatus().GetProgress(), s.ReplicationStatus().GetMax()}
			samples++
			if prev, ok := last[s]; ok {
				if cur.p < prev.p {
					k.Failf("C19/progress-decreased", "n%d progress went from %d to %d (max %d->%d, log length %d)", i, prev.p, cur.p, prev.m, cur.m, s.OpLog().Len())
				}
				if cur.m < prev.m {
					k.Failf("C19/max-decreased", "n%d max went from %d to %d (progress %d->%d, log length %d)", i, prev.m, cur.m, prev.p, cur.p, s.OpLog().Len())
				}
			}
			last[s] = cur
		}
	}
	restChecks := 0
	remoteHeadsFault := false
	// 1 run in 3: the replicators' progress events are held back (the goroutine that forwards
	// them is slow) and let go by the kernel one at a time, so that the end of a replication
	// is handled before the progress of its last fetches
	lateProgress := k.C.Chance(1, 3)
	holdProgress := func(on bool) {
		if !lateProgress {
			return
		}
		if on {
			k.AlwaysPark = func(pt string, owner interface{}) bool { return pt == "replicator.before-progress-emit" }
			k.InstallHooks(nil)
			k.F.Release = 2
		} else {
			k.AlwaysPark = nil
			UninstallHooks()
			k.ReleaseAllParks()
		}
	}
	holdProgress(true)
	if lateProgress {
		k.W.Stat("mode:late-progress-events")
	}
	atRest := func(where string) {
		for i, s := range c.Stores {
			if s == nil {
				continue
			}
			// complete log: closed under next
			have := LogHashSet(s)
			complete := true
			maxT := 0
			for _, e := range LogValues(s) {
				for _, nx := range e.GetNext() {
					if !have[nx.String()] {
						complete = false
					}
				}
				if t := e.GetClock().GetTime(); t > maxT {
					maxT = t
				}
			}
			if !complete {
				continue
			}
			p, m, l := s.ReplicationStatus().GetProgress(), s.ReplicationStatus().GetMax(), s.OpLog().Len()
			restChecks++
			if p != m {
				k.Failf("C19/rest-progress-ne-max", "%s: n%d at rest with a complete %d-entry log (max Lamport time %d) reports progress %d, max %d", where, i, l, maxT, p, m)
			}
			if p < maxT || p > l {
				k.Failf("C19/rest-out-of-range", "%s: n%d at rest reports progress=max=%d outside [max Lamport time %d, entry count %d]", where, i, p, maxT, l)
			}
		}
	}
	for i := 0; i < nops; i++ {
		switch k.C.Weighted([]int{8, 2, 1, 1, 2, 1, 1, 2}) {
		case 7:
			// Load(-1) called on a replica while a replication round may be under way on it
			// (heads announced or being fetched, nothing merged yet, or a batch waiting):
			// preferably on a replica whose log is still empty
			node := k.C.Intn(n)
			for o := 0; o < n; o++ {
				if c.Stores[o] != nil && c.Stores[o].OpLog().Len() == 0 && k.C.Chance(2, 3) {
					node = o
				}
			}
			if st := c.Stores[node]; st != nil {
				if st.OpLog().Len() == 0 {
					if !ReplicatorIdle(st) {
						k.W.Stat("load-on-empty-replica-mid-round")
					}
				}
				k.W.Stat("load-beside-replication")
				lop := k.Do(node, "load-beside-replication", 60, func() (interface{}, error) {
					ctx, cancel := OpCtx(2 * time.Minute)
					defer cancel()
					return nil, st.Load(ctx, -1)
				})
				if lop.Done && lop.Err != nil {
					k.Failf("C19/restart-load-error", "Load(-1) on running n%d failed: %v", node, lop.Err)
				}
			}
		case 6:
			// the next write of the merged heads to the cache fails on one replica (disk error
			// at the end of a merge): the entries are in its log all the same
			if n > 1 {
				nd := c.Peers[k.C.Intn(n)].Node
				k.W.mu.Lock()
				k.W.DiskFault = func(on *Node, kind, space, key string) error {
					if on == nd && kind == "cache-put" && strings.HasSuffix(key, "_remoteHeads") {
						k.W.DiskFault = nil
						k.W.stat("merge-heads-write-failed")
						return fmt.Errorf("sim: disk error on %s", key)
					}
					return nil
				}
				k.W.mu.Unlock()
				remoteHeadsFault = true
			}
		case 5:
			// a local write whose cache write fails (disk error): the call reports the error, the
			// entry is in the log all the same, and the status must account for it
			node := k.C.Intn(n)
			if st := c.Stores[node]; st != nil && k.opsInFlightOn(node) == 0 {
				armed := true
				nd := c.Peers[node].Node
				k.W.mu.Lock()
				k.W.DiskFault = func(on *Node, kind, space, key string) error {
					if armed && on == nd && kind == "cache-put" {
						armed = false
						return fmt.Errorf("sim: disk error on %s", key)
					}
					return nil
				}
				k.W.mu.Unlock()
				val := c.NextVal(node)
				op := k.Do(node, "write-under-disk-error "+val, 20, func() (interface{}, error) {
					ctx, cancel := OpCtx(time.Minute)
					defer cancel()
					return c09Write(ctx, st, val)
				})
				k.W.mu.Lock()
				k.W.DiskFault = nil
				k.W.mu.Unlock()
				if op.Done && op.Err != nil {
					k.W.Stat("write-failed-on-disk-error")
				}
			}
		case 4:
			// concurrent local writers stopped between the log append and their status update
			// while replication (fetch, join, end-of-replication catch-up) goes on around them
			node := k.C.Intn(n)
			if c.Stores[node] != nil {
				if n > 1 && k.C.Chance(1, 2) {
					if o := (node + 1 + k.C.Intn(n-1)) % n; c.Stores[o] != nil {
						c.RandomWrite(o) // something to replicate meanwhile
					}
				}
				c.WriteBurst(node, k.C.Range(1, 3), k.C.Chance(4, 5))
			}
		case 0:
			node := k.C.Intn(n)
			if c.Stores[node] != nil {
				c.RandomWrite(node)
			}
		case 1:
			// far-ahead heads: isolate one writer, let it run ahead, then heal
			if n > 1 {
				node := k.C.Intn(n)
				if c.Stores[node] != nil {
					for o := 0; o < n; o++ {
						if o != node && !k.W.IsCut(node, o) {
							k.Cut(node, o)
						}
					}
					burst := k.C.Range(2, 6)
					for j := 0; j < burst; j++ {
						c.RandomWrite(node)
					}
					for o := 0; o < n; o++ {
						if o != node {
							k.Heal(node, o)
						}
					}
					k.W.Stat("far-ahead-burst")
				}
			}
		case 2:
			node := k.C.Intn(n)
			if c.Stores[node] != nil && k.opsInFlightOn(node) == 0 {
				// 1 restart in 3 comes back from a snapshot saved just before the stop
				snap := k.C.Chance(1, 3) && c.SaveSnapshot(node)
				delete(last, c.Stores[node])
				c.Down(node, false)
				k.Steps(k.C.Intn(4))
				if snap {
					if err := c.UpFromSnapshot(node); err != nil {
						k.Failf("C19/restart-load-error", "restart of n%d from its snapshot failed: %v", node, err)
					}
				} else if err := c.Up(node); err != nil {
					k.Failf("C19/restart-load-error", "restart of n%d failed: %v", node, err)
				}
			}
		case 3:
			holdProgress(false)
			if k.Settle(60*time.Second, 1500, c.AllIdle) {
				atRest(fmt.Sprintf("mid-run rest after op %d", i))
			}
			holdProgress(true)
		}
		k.Steps(k.C.Intn(6))
	}
	if remoteHeadsFault {
		k.W.mu.Lock()
		k.W.DiskFault = nil
		k.W.mu.Unlock()
	}
	holdProgress(false)
	if k.Settle(120*time.Second, 4000, c.AllIdle) {
		atRest("final rest")
	}
	k.Notes["samples"] = samples
	k.Notes["rest_checks"] = restChecks
	k.Notes["writes"] = len(c.Writes)
	k.Notes["nontrivial"] = len(c.Writes) >= 3 && restChecks > 0 && samples >= 20
	c.CloseAll()
}
