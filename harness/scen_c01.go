package sim

import (
	"time"
)

func init() {
	Register(&Scenario{Prop: "C01", Name: "same-set-same-state", Run: scenC01, SoftParks: true, Weight: 1,
		Rule: "2-4 replicas (1-3 writers, rest observers) of a key-value, event-log or document database with per-replica ReplicationConcurrency in {1,2,32} and ReferenceCount in {1,2,64}; 4-14 (thorough 4-40) writes (some of them bursts of 2-3 concurrent writers on one replica, stepped through the write path or free-running under seeded yields, the client of one of them possibly giving up mid-write) whose causal shape comes from partial replication between writers; entries reach replicas by announced heads, head exchange on join, manual Sync of (shuffled, duplicated) heads, clean restart or crash + Load(-1), an observer's saved snapshot + restart + LoadFromSnapshot, under reorder/dup/drop/cut/heal, shuffled fetch completion and (1 run in 2) failing block fetches that are retried on a later announcement (1 run in 3: the first remote fetch of about half the entries fails, so ancestors arrive after their descendants); at every quiescent step every pair of replicas with equal entry sets must have equal log order and equal visible state; non-trivial = at least one compared pair held >=3 entries by >=2 authors (or a fork) and was compared at >=2 distinct sets"})
}

func scenC01(k *K) {
	types := []string{"keyvalue", "eventlog", "docstore"}
	typ := types[k.C.Intn(3)]
	n := k.C.Range(2, 4)
	nw := k.C.Range(1, min(3, n))
	conc := []uint{1, 2, 32}[k.C.Intn(3)]
	refc := []int{1, 2, 64}[k.C.Intn(3)]
	c := k.NewCluster(ClusterCfg{N: n, Type: typ, PeerOpts: append(transportOpt(k), WithKnobs(Knobs{Concurrency: conc, RefCount: refc}))})
	k.F = swarmFaults(k, true)
	c.FetchFailures()
	c.BurstCancel = k.C.Chance(1, 2)
	nops := k.C.Range(4, 14)
	if Tier == "thorough" {
		nops = k.C.Range(4, 40)
	}
	comparisons := 0
	sets := map[string]bool{}
	rich := false
	k.Invariant = func() {
		if cmp := c.PairwiseAgreement("C01"); cmp > 0 {
			comparisons += cmp
			for i, s := range c.Stores {
				if s == nil {
					continue
				}
				hs := LogHashSet(s)
				sets[SetKey(hs)] = true
				authors := map[int]bool{}
				for h := range hs {
					if wr, ok := c.ByHash[h]; ok {
						authors[wr.Node] = true
					}
				}
				if len(hs) >= 3 && (len(authors) >= 2 || len(HeadHashes(s)) >= 2) {
					rich = true
				}
				_ = i
			}
		}
	}
	var syncs []*Op
	hasSnap := map[int]bool{}
	for i := 0; i < nops; i++ {
		switch k.C.Weighted([]int{6, 2, 1, 1, 1, 2}) {
		case 5:
			node := k.C.Intn(nw)
			if c.Stores[node] != nil {
				c.WriteBurst(node, k.C.Range(2, 3), k.C.Chance(1, 2))
			}
		case 4:
			// an observer saves a snapshot; a later restart of it may load from the snapshot
			if n > nw {
				node := nw + k.C.Intn(n-nw)
				if c.Stores[node] != nil && k.opsInFlightOn(node) == 0 && c.SaveSnapshot(node) {
					hasSnap[node] = true
				}
			}
		case 0:
			node := k.C.Intn(nw)
			if c.Stores[node] != nil {
				c.RandomWrite(node)
			}
		case 1:
			src, dst := k.C.Intn(n), k.C.Intn(n)
			if src != dst && c.Stores[src] != nil && c.Stores[dst] != nil {
				if op := c.ManualSync(src, dst); op != nil {
					syncs = append(syncs, op)
				}
			}
		case 2:
			node := k.C.Intn(n)
			if c.Stores[node] != nil && k.opsInFlightOn(node) == 0 {
				c.Down(node, k.C.Chance(1, 2))
				k.Steps(k.C.Intn(4))
				if hasSnap[node] && k.C.Chance(1, 2) {
					if err := c.UpFromSnapshot(node); err != nil {
						k.Failf("C01/restart-load-error", "restart of n%d from its snapshot failed: %v", node, err)
					}
				} else if err := c.Up(node); err != nil {
					k.Failf("C01/restart-load-error", "restart of n%d failed: %v", node, err)
				}
			}
		case 3:
			k.Steps(k.C.Intn(10))
		}
		k.Steps(k.C.Intn(6))
	}
	k.Settle(120*time.Second, 4000, c.AllIdle)
	k.Notes["comparisons"] = comparisons
	k.Notes["distinct_sets_compared"] = len(sets)
	k.Notes["writes"] = len(c.Writes)
	k.Notes["nontrivial"] = comparisons > 0 && rich && len(sets) >= 2
	c.CloseAll()
}
