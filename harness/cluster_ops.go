package sim

import (
	"context"
	"encoding/json"
	"fmt"
	"time"

	ipfslog "berty.tech/go-ipfs-log"
	"berty.tech/go-ipfs-log/entry"
	"berty.tech/go-orbit-db/iface"
	"berty.tech/go-orbit-db/stores/operation"
)

var wlKeys = []string{"a", "b", "c", "d"}

// RandomWrite performs one write of a kind suitable for the cluster's store type, chosen by
// the run. It returns nil when the chosen operation was legitimately refused (document
// delete of an absent key).
func (c *Cluster) RandomWrite(node int) *WriteRec {
	k := c.K
	s := c.Stores[node]
	switch st := s.(type) {
	case iface.KeyValueStore:
		key := wlKeys[k.C.Intn(len(wlKeys))]
		if k.C.Chance(1, 4) {
			wr, err := c.Write(node, "del "+key, func(ctx context.Context) (operation.Operation, error) { return st.Delete(ctx, key) })
			if err != nil {
				k.Failf("write-error", "kv delete by authorised writer failed: %v", err)
			}
			return wr
		}
		val := c.NextVal(node)
		wr, err := c.Write(node, "put "+key+"="+val, func(ctx context.Context) (operation.Operation, error) { return st.Put(ctx, key, []byte(val)) })
		if err != nil {
			k.Failf("write-error", "kv put by authorised writer failed: %v", err)
		}
		return wr
	case iface.EventLogStore:
		val := c.NextVal(node)
		wr, err := c.Write(node, "add "+val, func(ctx context.Context) (operation.Operation, error) { return st.Add(ctx, []byte(val)) })
		if err != nil {
			k.Failf("write-error", "eventlog add by authorised writer failed: %v", err)
		}
		return wr
	case iface.DocumentStore:
		key := wlKeys[k.C.Intn(len(wlKeys))]
		switch k.C.Intn(5) {
		case 0:
			wr, err := c.Write(node, "docdel "+key, func(ctx context.Context) (operation.Operation, error) { return st.Delete(ctx, key) })
			if err != nil {
				return nil // absent key: refused
			}
			return wr
		case 1:
			n := k.C.Range(1, 3)
			var docs []interface{}
			desc := ""
			for i := 0; i < n; i++ {
				kk := wlKeys[k.C.Intn(len(wlKeys))]
				v := c.NextVal(node)
				docs = append(docs, map[string]interface{}{"_id": kk, "v": v})
				desc += kk + "=" + v + ","
			}
			wr, err := c.Write(node, "putall "+desc, func(ctx context.Context) (operation.Operation, error) { return st.PutAll(ctx, docs) })
			if err != nil {
				k.Failf("write-error", "doc putall by authorised writer failed: %v", err)
			}
			return wr
		default:
			val := c.NextVal(node)
			wr, err := c.Write(node, "docput "+key+"="+val, func(ctx context.Context) (operation.Operation, error) {
				return st.Put(ctx, map[string]interface{}{"_id": key, "v": val})
			})
			if err != nil {
				k.Failf("write-error", "doc put by authorised writer failed: %v", err)
			}
			return wr
		}
	}
	return nil
}

// CopyHeads returns deep copies (JSON round trip, as on the wire) of entries, so that two
// simulated nodes never share mutable entry objects.
func CopyHeads(es []ipfslog.Entry) []ipfslog.Entry {
	out := make([]ipfslog.Entry, 0, len(es))
	for _, e := range es {
		b, err := json.Marshal(e)
		if err != nil {
			continue
		}
		ne := &entry.Entry{}
		if err := json.Unmarshal(b, ne); err != nil {
			continue
		}
		out = append(out, ne)
	}
	return out
}

// ManualSync hands (copies of) src's current heads to dst.Sync, optionally shuffled and with
// duplicates. The call runs as its own client operation.
func (c *Cluster) ManualSync(src, dst int) *Op {
	k := c.K
	heads := CopyHeads(c.Stores[src].OpLog().Heads().Slice())
	if len(heads) == 0 {
		return nil
	}
	perm := k.C.Perm(len(heads))
	var hs []ipfslog.Entry
	for _, i := range perm {
		hs = append(hs, heads[i])
	}
	if k.C.Chance(1, 4) {
		hs = append(hs, CopyHeads(hs[:1])...)
		k.W.Stat("sync-dup-head")
	}
	k.W.Stat("manual-sync")
	store := c.Stores[dst]
	return k.Go(dst, fmt.Sprintf("sync %d->%d heads=%d", src, dst, len(hs)), func() (interface{}, error) {
		return nil, store.Sync(context.Background(), hs)
	})
}

// Down takes peer i down, by a crash (zombie at once) or a clean close.
func (c *Cluster) Down(i int, crash bool) {
	k := c.K
	p := c.Peers[i]
	if c.Stores[i] == nil {
		return
	}
	c.Stores[i] = nil
	if crash {
		k.CrashPeer(p)
		return
	}
	k.W.Stat("clean-stop")
	op := k.StopPeer(p)
	k.Wait()
	for j := 0; j < 200 && !k.IsDone(op); j++ {
		k.Step()
	}
	if !k.IsDone(op) {
		k.Failf("close/hang", "closing the instance on n%d did not return within 200 kernel steps", i)
	}
	k.W.Detach(p.Inc)
}

// Up restarts peer i on its durable state: new instance, open, Load(-1) (with offline block
// semantics during the load: see DESIGN.md §2.3.1).
func (c *Cluster) Up(i int) error {
	k := c.K
	if c.Stores[i] != nil {
		return nil
	}
	k.W.Stat("restart")
	p, err := k.StartPeer(c.Peers[i].Node, c.PeerOpts...)
	if err != nil {
		return err
	}
	c.Peers[i] = p
	op := k.Do(i, "reopen", 400, func() (interface{}, error) {
		ctx, cancel := OpCtx(10 * time.Minute)
		defer cancel()
		return p.DB.Open(ctx, c.Addr, c.createOpts(i))
	})
	if !op.Done {
		k.Failf("open/hang", "reopen on n%d did not return", i)
	}
	if op.Err != nil {
		return op.Err
	}
	st := op.Val.(iface.Store)
	p.Stores[c.Addr] = st
	p.Inc.SetOffline(true)
	lop := k.Do(i, "load -1", 400, func() (interface{}, error) {
		ctx, cancel := OpCtx(10 * time.Minute)
		defer cancel()
		return nil, st.Load(ctx, -1)
	})
	p.Inc.SetOffline(false)
	if !lop.Done {
		k.Failf("load/hang", "Load(-1) after restart on n%d did not return", i)
	}
	c.Stores[i] = st
	return lop.Err
}

// PairwiseAgreement: replicas holding the same set of entries must list them in the same
// order and show the same state.
func (c *Cluster) PairwiseAgreement(sig string) (comparisons int) {
	type obs struct {
		set, seq, state string
		heads           string
		i               int
	}
	var os []obs
	for i, s := range c.Stores {
		if s == nil {
			continue
		}
		seq := LogHashSeq(s)
		os = append(os, obs{set: SetKey(LogHashSet(s)), seq: fmt.Sprint(seq), state: VisibleState(s), heads: fmt.Sprint(HeadHashes(s)), i: i})
	}
	for a := 0; a < len(os); a++ {
		for b := a + 1; b < len(os); b++ {
			if os[a].set != os[b].set || os[a].set == "" {
				continue
			}
			comparisons++
			if os[a].seq != os[b].seq {
				c.K.Failf(sig+"/order-differs", "n%d and n%d hold the same %d entries but order them differently:\n n%d: %v\n n%d: %v", os[a].i, os[b].i, len(LogHashSeq(c.Stores[os[a].i])), os[a].i, LogNames(c.Stores[os[a].i]), os[b].i, LogNames(c.Stores[os[b].i]))
			}
			if os[a].state != os[b].state {
				c.K.Failf(sig+"/state-differs", "n%d and n%d hold the same entries in the same order but show different contents:\n n%d: %s\n n%d: %s", os[a].i, os[b].i, os[a].i, os[a].state, os[b].i, os[b].state)
			}
			if os[a].heads != os[b].heads {
				c.K.W.Stat("head-set-mismatch")
			}
		}
	}
	return
}
