package sim

import (
	"context"
	"encoding/json"
	"fmt"
	"sort"
	"time"

	ipfslog "berty.tech/go-ipfs-log"
	"berty.tech/go-ipfs-log/entry"
	"berty.tech/go-orbit-db/iface"
	"berty.tech/go-orbit-db/stores/basestore"
	"berty.tech/go-orbit-db/stores/operation"
)

var wlKeys = []string{"a", "b", "c", "d"}

// WritePlan is one drawn write: what it is called, how to run it, and whether the store may
// legitimately refuse it (document delete of an absent key).
type WritePlan struct {
	Name      string
	F         func(ctx context.Context) (operation.Operation, error)
	MayRefuse bool
	What      string
}

// PlanWrite draws one write of a kind suitable for the cluster's store type.
func (c *Cluster) PlanWrite(node int) *WritePlan {
	k := c.K
	s := c.Stores[node]
	switch st := s.(type) {
	case iface.KeyValueStore:
		key := wlKeys[k.C.Intn(len(wlKeys))]
		if k.C.Chance(1, 4) {
			return &WritePlan{Name: "del " + key, What: "kv delete", F: func(ctx context.Context) (operation.Operation, error) { return st.Delete(ctx, key) }}
		}
		val := c.NextVal(node)
		return &WritePlan{Name: "put " + key + "=" + val, What: "kv put", F: func(ctx context.Context) (operation.Operation, error) { return st.Put(ctx, key, []byte(val)) }}
	case iface.EventLogStore:
		val := c.NextVal(node)
		return &WritePlan{Name: "add " + val, What: "eventlog add", F: func(ctx context.Context) (operation.Operation, error) { return st.Add(ctx, []byte(val)) }}
	case iface.DocumentStore:
		key := wlKeys[k.C.Intn(len(wlKeys))]
		switch k.C.Intn(5) {
		case 0:
			return &WritePlan{Name: "docdel " + key, What: "doc delete", MayRefuse: true, F: func(ctx context.Context) (operation.Operation, error) { return st.Delete(ctx, key) }}
		case 1:
			n := k.C.Range(1, 3)
			var docs []interface{}
			desc := ""
			for i := 0; i < n; i++ {
				kk := wlKeys[k.C.Intn(len(wlKeys))]
				v := c.NextVal(node)
				docs = append(docs, map[string]interface{}{"_id": kk, "v": v})
				desc += kk + "=" + v + ","
			}
			return &WritePlan{Name: "putall " + desc, What: "doc putall", F: func(ctx context.Context) (operation.Operation, error) { return st.PutAll(ctx, docs) }}
		default:
			val := c.NextVal(node)
			return &WritePlan{Name: "docput " + key + "=" + val, What: "doc put", F: func(ctx context.Context) (operation.Operation, error) {
				return st.Put(ctx, map[string]interface{}{"_id": key, "v": val})
			}}
		}
	}
	return nil
}

// RandomWrite performs one write of a kind suitable for the cluster's store type, chosen by
// the run. It returns nil when the chosen operation was legitimately refused (document
// delete of an absent key).
func (c *Cluster) RandomWrite(node int) *WriteRec {
	p := c.PlanWrite(node)
	if p == nil {
		return nil
	}
	wr, err := c.Write(node, p.Name, p.F)
	if err != nil {
		if p.MayRefuse {
			return nil
		}
		c.K.Failf("write-error", "%s by authorised writer failed: %v", p.What, err)
	}
	return wr
}

// WriteBurst runs nw concurrent writers (one drawn write each) on one replica. With park set
// every writer stops at the three write-path points (after the log append, after the heads
// are persisted, after the view update) and the kernel, in a drawn order, either releases one
// parked writer or takes an ordinary step (deliveries, fetches: replication goes on while
// writers sit between two of their steps). Without park the writers interleave at the
// inserted yield points only. Returns the acknowledged writes in the order they returned.
func (c *Cluster) WriteBurst(node, nw int, park bool) []*WriteRec {
	k := c.K
	st := c.Stores[node]
	seen := LogHashSet(st)
	if park {
		k.InstallHooks(func(pt string, owner interface{}) bool {
			switch pt {
			case "store.after-append", "store.after-head-persisted", "store.after-index":
				return OwnerStoreID(owner) == c.Addr
			}
			return false
		})
	}
	type bw struct {
		p         *WritePlan
		op        *Op
		cancel    context.CancelFunc
		cancelled bool
	}
	var ws []*bw
	for i := 0; i < nw; i++ {
		p := c.PlanWrite(node)
		if p == nil {
			continue
		}
		w := &bw{p: p}
		ctx, cancel := OpCtx(10 * time.Minute)
		w.cancel = cancel
		k.cleanups = append(k.cleanups, func() { cancel() })
		w.op = k.Go(node, p.Name, func() (interface{}, error) {
			return p.F(ctx)
		})
		ws = append(ws, w)
	}
	allDone := func() bool {
		for _, w := range ws {
			if !k.IsDone(w.op) {
				return false
			}
		}
		return true
	}
	maxParked := 0
	for i := 0; i < 600 && !allDone(); i++ {
		k.Wait()
		if c.OnBurstStep != nil {
			// everything is at rest or parked: the entries of the writers that have returned
			var acked []ipfslog.Entry
			for _, w := range ws {
				if k.IsDone(w.op) && w.op.Err == nil {
					if o, ok := w.op.Val.(operation.Operation); ok && o != nil {
						acked = append(acked, o.GetEntry())
					}
				}
			}
			c.OnBurstStep(node, acked)
		}
		ps := k.Parks()
		if len(ps) > maxParked {
			maxParked = len(ps)
		}
		if c.BurstCancel && len(ps) > 0 && k.C.Chance(1, 8) {
			// the client of one of the writers gives up while the writer sits between two steps
			if w := ws[k.C.Intn(len(ws))]; !w.cancelled && !k.IsDone(w.op) {
				w.cancelled = true
				w.cancel()
				k.W.Stat("writer-context-cancelled-mid-write")
			}
		}
		if len(ps) > 0 && k.C.Chance(3, 5) {
			k.bump()
			k.ReleaseOne(k.C.Intn(len(ps)))
			continue
		}
		k.Step()
	}
	if park {
		k.RemoveHooks()
		k.ReleaseAllParks()
	}
	k.Wait()
	for i := 0; i < 200 && !allDone(); i++ {
		k.Step()
		k.Wait()
	}
	if !allDone() {
		k.Failf("write/hang", "concurrent local writes on n%d did not return: pending=%v", node, k.PendingDesc())
	}
	if maxParked >= 2 {
		k.W.Stat("burst-writers-parked-together")
	}
	k.W.Stat("write-burst")
	sort.SliceStable(ws, func(i, j int) bool { return ws[i].op.RetSeq < ws[j].op.RetSeq })
	var out []*WriteRec
	for _, w := range ws {
		if w.op.Err != nil {
			if w.p.MayRefuse {
				continue
			}
			if w.cancelled {
				// not acknowledged: its entry may be in the log all the same
				for _, e := range LogValues(st) {
					if h := e.GetHash().String(); !seen[h] && c.ByHash[h] == nil {
						c.Maybe[h] = true
					}
				}
				continue
			}
			k.Failf("write-error", "%s by authorised writer (one of %d concurrent) failed: %v", w.p.What, nw, w.op.Err)
		}
		o := w.op.Val.(operation.Operation)
		out = append(out, c.RecordWrite(node, w.op, o.GetEntry(), seen))
	}
	return out
}

// CopyHeads returns deep copies (JSON round trip, as on the wire) of entries, so that two
// simulated nodes never share mutable entry objects.
func CopyHeads(es []ipfslog.Entry) []ipfslog.Entry {
	out := make([]ipfslog.Entry, 0, len(es))
	for _, e := range es {
		b, err := json.Marshal(e)
		if err != nil {
			continue
		}
		ne := &entry.Entry{}
		if err := json.Unmarshal(b, ne); err != nil {
			continue
		}
		out = append(out, ne)
	}
	return out
}

// ManualSync hands (copies of) src's current heads to dst.Sync, optionally shuffled and with
// duplicates. The call runs as its own client operation.
func (c *Cluster) ManualSync(src, dst int) *Op {
	k := c.K
	heads := CopyHeads(c.Stores[src].OpLog().Heads().Slice())
	if len(heads) == 0 {
		return nil
	}
	perm := k.C.Perm(len(heads))
	var hs []ipfslog.Entry
	for _, i := range perm {
		hs = append(hs, heads[i])
	}
	if k.C.Chance(1, 4) {
		hs = append(hs, CopyHeads(hs[:1])...)
		k.W.Stat("sync-dup-head")
	}
	k.W.Stat("manual-sync")
	store := c.Stores[dst]
	return k.Go(dst, fmt.Sprintf("sync %d->%d heads=%d", src, dst, len(hs)), func() (interface{}, error) {
		return nil, store.Sync(context.Background(), hs)
	})
}

// Down takes peer i down, by a crash (zombie at once) or a clean close.
func (c *Cluster) Down(i int, crash bool) {
	k := c.K
	p := c.Peers[i]
	if c.Stores[i] == nil {
		return
	}
	c.Stores[i] = nil
	if crash {
		k.CrashPeer(p)
		return
	}
	k.W.Stat("clean-stop")
	op := k.StopPeer(p)
	k.Wait()
	for j := 0; j < 200 && !k.IsDone(op); j++ {
		k.Step()
	}
	if !k.IsDone(op) {
		k.Failf("close/hang", "closing the instance on n%d did not return within 200 kernel steps", i)
	}
	k.W.Detach(p.Inc)
}

// Up restarts peer i on its durable state: new instance, open, Load(-1) (with offline block
// semantics during the load: see DESIGN.md §2.3.1).
func (c *Cluster) Up(i int) error { return c.up(i, true) }

// UpWithoutLoad restarts peer i and opens the database but does not load it: the application
// goes on using the store as it is (a fresh, empty log over a cache that holds the old heads).
func (c *Cluster) UpWithoutLoad(i int) error { return c.up(i, false) }

func (c *Cluster) up(i int, load bool) error {
	k := c.K
	if c.Stores[i] != nil {
		return nil
	}
	k.W.Stat("restart")
	p, err := k.StartPeer(c.Peers[i].Node, c.PeerOpts...)
	if err != nil {
		return err
	}
	c.Peers[i] = p
	op := k.Do(i, "reopen", 400, func() (interface{}, error) {
		ctx, cancel := OpCtx(10 * time.Minute)
		defer cancel()
		return p.DB.Open(ctx, c.Addr, c.createOpts(i))
	})
	if !op.Done {
		k.Failf("open/hang", "reopen on n%d did not return", i)
	}
	if op.Err != nil {
		return op.Err
	}
	st := op.Val.(iface.Store)
	p.Stores[c.Addr] = st
	if !load {
		c.Stores[i] = st
		k.W.Stat("restart-without-load")
		return nil
	}
	// only this call reads without the network (a miss is an answer, not a wait): replication
	// started meanwhile by head exchanges fetches as usual
	lop := k.Do(i, "load -1", 400, func() (interface{}, error) {
		ctx, cancel := OpCtx(10 * time.Minute)
		defer cancel()
		return nil, st.Load(WithOfflineReads(ctx), -1)
	})
	if !lop.Done {
		k.Failf("load/hang", "Load(-1) after restart on n%d did not return", i)
	}
	c.Stores[i] = st
	return lop.Err
}

// SaveSnapshot saves a snapshot of peer i's replica (the snapshot's address goes to its cache).
func (c *Cluster) SaveSnapshot(i int) bool {
	st := c.Stores[i]
	if st == nil {
		return false
	}
	op := c.K.Do(i, "save-snapshot", 100, func() (interface{}, error) {
		ctx, cancel := OpCtx(2 * time.Minute)
		defer cancel()
		return basestore.SaveSnapshot(ctx, st)
	})
	c.K.W.Stat("snapshot-saved")
	return op.Done && op.Err == nil
}

// UpFromSnapshot restarts peer i like Up, but fills the fresh store from the saved snapshot
// (LoadFromSnapshot) instead of the cached heads.
func (c *Cluster) UpFromSnapshot(i int) error {
	k := c.K
	if c.Stores[i] != nil {
		return nil
	}
	k.W.Stat("restart-from-snapshot")
	p, err := k.StartPeer(c.Peers[i].Node, c.PeerOpts...)
	if err != nil {
		return err
	}
	c.Peers[i] = p
	op := k.Do(i, "reopen", 400, func() (interface{}, error) {
		ctx, cancel := OpCtx(10 * time.Minute)
		defer cancel()
		return p.DB.Open(ctx, c.Addr, c.createOpts(i))
	})
	if !op.Done {
		k.Failf("open/hang", "reopen on n%d did not return", i)
	}
	if op.Err != nil {
		return op.Err
	}
	st := op.Val.(iface.Store)
	p.Stores[c.Addr] = st
	lop := k.Do(i, "load-from-snapshot", 400, func() (interface{}, error) {
		ctx, cancel := OpCtx(10 * time.Minute)
		defer cancel()
		return nil, st.LoadFromSnapshot(WithOfflineReads(ctx))
	})
	if !lop.Done {
		k.Failf("load/hang", "LoadFromSnapshot after restart on n%d did not return", i)
	}
	c.Stores[i] = st
	return lop.Err
}

// PairwiseAgreement: replicas holding the same set of entries must list them in the same
// order and show the same state.
func (c *Cluster) PairwiseAgreement(sig string) (comparisons int) {
	type obs struct {
		set, seq, state string
		heads           string
		i               int
	}
	var os []obs
	for i, s := range c.Stores {
		if s == nil {
			continue
		}
		// a replica with a local write between its log append and its view update is not in
		// a state the property speaks about
		if c.K.opsInFlightOn(i) > 0 {
			continue
		}
		seq := LogHashSeq(s)
		os = append(os, obs{set: SetKey(LogHashSet(s)), seq: fmt.Sprint(seq), state: VisibleState(s), heads: fmt.Sprint(HeadHashes(s)), i: i})
	}
	for a := 0; a < len(os); a++ {
		for b := a + 1; b < len(os); b++ {
			if os[a].set != os[b].set || os[a].set == "" {
				continue
			}
			comparisons++
			if os[a].seq != os[b].seq {
				c.K.Failf(sig+"/order-differs", "n%d and n%d hold the same %d entries but order them differently:\n n%d: %v\n n%d: %v", os[a].i, os[b].i, len(LogHashSeq(c.Stores[os[a].i])), os[a].i, LogNames(c.Stores[os[a].i]), os[b].i, LogNames(c.Stores[os[b].i]))
			}
			if os[a].state != os[b].state {
				c.K.Failf(sig+"/state-differs", "n%d and n%d hold the same entries in the same order but show different contents:\n n%d: %s\n n%d: %s", os[a].i, os[b].i, os[a].i, os[a].state, os[b].i, os[b].state)
			}
			if os[a].heads != os[b].heads {
				c.K.W.Stat("head-set-mismatch")
			}
		}
	}
	return
}
