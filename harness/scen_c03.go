package sim

import (
	"context"
	"fmt"
	"time"

	"berty.tech/go-ipfs-log/entry"
	idp "berty.tech/go-ipfs-log/identityprovider"
	orbitdb "berty.tech/go-orbit-db"
	"berty.tech/go-orbit-db/accesscontroller"
	"berty.tech/go-orbit-db/iface"
	"berty.tech/go-orbit-db/stores/operation"
	cid "github.com/ipfs/go-cid"
)

func init() {
	Register(&Scenario{Prop: "C03", Name: "authorised-writers-only", Run: scenC03, SoftParks: true, Weight: 1,
		Rule: "creator/writer W, honest replica R, optionally an honest non-writer instance X (in half of the runs block fetches fail while R and X open the database - manifest, access controller, write list - and a failed Open is retried on the same instance), and an adversary peer holding its own keys (sometimes also listed as a colluding writer); write list kind drawn per run {explicit ids, wildcard, none given = creator only} and access controller {ipfs, simple}; 1-4 honest writes, then 2-6 hostile attempts, each a cell of (forgery: own non-writer identity | copied writer id | copied writer id under an identity type the provider does not know | copied identity block | identity block + swapped key | any of the 16 mixes of victim's / adversary's identity public key, id signature, public-key signature and entry key under the victim's id) x (route: announced head | direct-channel head exchange | manual Sync | predecessor (next) of a colluding writer's valid entry | named only in that entry's refs); in half of the runs the receiver finally restarts and loads what it had persisted x (position: on top of the current heads | detached | far-ahead clock); oracle at every quiescent step on every honest replica: no entry crafted without a writer's signing key is in the log, visible state equals the LWW replay of honest entries; a non-writer's local write returns an error and changes nothing; with the wildcard only the positive direction (the outsider's entry is merged) is checked; non-trivial = >=2 distinct (forgery, route) cells were delivered to a replica that had replicated >=1 honest entry"})
}

func scenC03(k *K) {
	withX := k.C.Chance(1, 2)
	n := 2
	if withX {
		n = 3
	}
	listKind := []string{"explicit", "explicit", "wildcard", "default"}[k.C.Intn(4)]
	acType := []string{"ipfs", "ipfs", "simple"}[k.C.Intn(3)]
	if listKind == "default" {
		acType = "ipfs"
	}
	adv := k.NewAdversary()
	collude := listKind == "explicit" && k.C.Chance(1, 2)
	writers := []int{0}
	if listKind == "explicit" && k.C.Chance(1, 2) {
		writers = []int{0, 1}
	}
	var extra []string
	if collude {
		extra = []string{adv.Own.ID}
	}
	var simpleParams accesscontroller.ManifestParams
	acl := func(ids []string) accesscontroller.ManifestParams {
		switch listKind {
		case "wildcard":
			ids = []string{"*"}
		case "default":
			return nil
		}
		if acType == "simple" {
			simpleParams = accesscontroller.NewSimpleManifestParams("simple", map[string][]string{"write": ids})
			return simpleParams
		}
		return WriteACL(ids...)
	}
	typ := []string{"keyvalue", "eventlog"}[k.C.Intn(2)]
	c := k.NewCluster(ClusterCfg{N: n, Type: typ, Writers: writers, ExtraIDs: extra, ACL: acl, FlakyOpen: k.C.Chance(1, 2),
		CreateOpts: func(i int) *orbitdb.CreateDBOptions {
			if acType == "simple" && simpleParams != nil {
				return &orbitdb.CreateDBOptions{AccessController: accesscontroller.CloneManifestParams(simpleParams)}
			}
			return nil
		}})
	k.W.Stat("acl:" + listKind + "/" + acType)
	forged := map[string]string{} // hash -> description
	allowedForeign := map[string]bool{}
	check := func(where string) {
		for i, s := range c.Stores {
			for _, e := range LogValues(s) {
				h := e.GetHash().String()
				if d, bad := forged[h]; bad {
					k.Failf("C03/forged-merged/"+d, "%s: replica n%d (write list %s/%s, writers %v, colluder listed: %v) merged an entry crafted without a writer's signing key: %s payload %s", where, i, listKind, acType, writers, collude, d, EntryName(e))
				}
				if c.ByHash[h] == nil && !allowedForeign[h] && where == "rest" {
					k.Failf("C03/unknown-entry", "%s: replica n%d holds an entry nobody legitimately wrote: %s", where, i, EntryName(e))
				}
			}
			if kv, ok := s.(iface.KeyValueStore); ok {
				if want, got := ReplayLWW(LogValues(s)), KVState(kv); !EqMap(want, got) {
					k.Failf("C03/state", "%s: n%d state %s differs from replay %s", where, i, MapStr(got), MapStr(want))
				}
			}
		}
	}
	k.Invariant = func() { check("step") }
	// honest history
	for i, m := 0, k.C.Range(1, 4); i < m; i++ {
		w := writers[k.C.Intn(len(writers))]
		c.RandomWrite(w)
		k.Steps(k.C.Intn(8))
	}
	k.Settle(60*time.Second, 2500, c.AllIdle)
	replicatedOnR := len(LogHashSet(c.Stores[1])) > 0
	// a non-writer's local write must fail and change nothing
	if withX && listKind != "wildcard" {
		X := c.Stores[2]
		before := fmt.Sprint(LogHashSeq(X), HeadHashes(X), VisibleState(X))
		op := k.Do(2, "non-writer-local-write", 30, func() (interface{}, error) {
			ctx, cancel := OpCtx(time.Minute)
			defer cancel()
			return c09Write(ctx, X, "by-non-writer")
		})
		if !op.Done {
			k.Failf("C03/local-write-hang", "local write by a non-writer did not return")
		}
		if op.Err == nil {
			k.Failf("C03/local-write-accepted", "local write by non-writer X (write list %s/%s) returned success", listKind, acType)
		}
		if after := fmt.Sprint(LogHashSeq(X), HeadHashes(X), VisibleState(X)); after != before {
			k.Failf("C03/local-write-changed-state", "refused local write changed X: before %s after %s", before, after)
		}
		k.W.Stat("non-writer-local-write-refused")
	}
	// hostile attempts
	adv.Engage(c.Peers[1], c.Stores[1])
	victimID := c.Stores[0].Identity() // the writer whose authorship is forged
	cells := map[string]bool{}
	attempts := k.C.Range(2, 6)
	if Tier == "thorough" {
		attempts = k.C.Range(2, 12)
	}
	for a := 0; a < attempts; a++ {
		kind := []string{"own", "copied-id", "copied-block", "block-and-key", "mix", "mix", "foreign-type"}[k.C.Intn(7)]
		if kind == "mix" {
			kind = "mix:" + string([]byte{"VA"[k.C.Intn(2)], "VA"[k.C.Intn(2)], "VA"[k.C.Intn(2)], "VA"[k.C.Intn(2)]})
		}
		if collude && kind == "own" {
			kind = "copied-id" // the colluder's own identity is a legitimate writer
		}
		route := []string{"topic", "direct", "sync", "ancestor", "ref"}[k.C.Intn(5)]
		if (route == "ancestor" || route == "ref") && !collude {
			route = []string{"topic", "direct", "sync"}[k.C.Intn(3)]
		}
		ident, priv := adv.ForgedIdentity(kind, victimID)
		var next []cid.Cid
		maxT := 0
		for _, e := range LogValues(c.Stores[0]) {
			if t := e.GetClock().GetTime(); t > maxT {
				maxT = t
			}
		}
		pos := k.C.Intn(3)
		switch pos {
		case 0:
			for _, h := range c.Stores[0].OpLog().Heads().Slice() {
				next = append(next, h.GetHash())
			}
			maxT++
		case 1:
			maxT = 1
		case 2:
			maxT += 50
		}
		key := "a"
		payload, _ := operation.NewOperation(&key, "PUT", []byte(fmt.Sprintf("forged-%d", a))).Marshal()
		if typ == "eventlog" {
			payload, _ = operation.NewOperation(nil, "ADD", []byte(fmt.Sprintf("forged-%d", a))).Marshal()
		}
		// as predecessor or reference of the colluding writer's entry the forged entry may also
		// be one written for another log (the outsider's own database), with a clock at or
		// above the naming entry's
		feLog, feClock, variant := c.Addr, maxT, ""
		if (route == "ancestor" || route == "ref") && k.C.Chance(1, 3) {
			feLog, feClock, variant = c.Addr+"-outsider", maxT+1+k.C.Intn(4), "/other-log"
		}
		fe, err := adv.Craft(kind, ident, priv, feLog, payload, next, feClock)
		if err != nil {
			k.W.Stat("craft-failed:" + kind)
			continue
		}
		desc := kind + "@" + route + variant
		if listKind == "wildcard" {
			allowedForeign[fe.Hash.String()] = true
		} else {
			forged[fe.Hash.String()] = desc
		}
		cells[desc] = true
		k.W.Stat("forge:" + desc)
		heads := []*entry.Entry{fe}
		deliver := route
		if route == "ancestor" || route == "ref" {
			// a valid entry by the colluding writer that names the forged entry as predecessor
			// (next), or only as a skip-list reference (refs), which loads follow
			nx, rf := []cid.Cid{fe.Hash}, []cid.Cid{}
			if route == "ref" {
				nx, rf = []cid.Cid{}, []cid.Cid{fe.Hash}
			}
			child, err := adv.CraftRefs("own", adv.Own, nil, c.Addr, payload, nx, rf, maxT+1)
			if err != nil {
				continue
			}
			allowedForeign[child.Hash.String()] = true
			heads = []*entry.Entry{child}
			deliver = []string{"topic", "direct", "sync"}[k.C.Intn(3)]
		}
		if collude && kind == "own" {
			allowedForeign[fe.Hash.String()] = true
		}
		adv.Deliver(deliver, c.Peers[1], c.Stores[1], heads...)
		k.Steps(k.C.Range(3, 25))
		// honest traffic continues
		if k.C.Chance(1, 2) {
			c.RandomWrite(writers[k.C.Intn(len(writers))])
			k.Steps(k.C.Intn(10))
		}
	}
	k.Settle(90*time.Second, 3000, nil)
	check("rest")
	// the receiver restarts and loads what it had persisted: still nothing forged
	if k.C.Chance(1, 2) {
		k.W.Stat("route:restart-load")
		k.Invariant = nil
		c.Down(1, k.C.Chance(1, 2))
		if err := c.Up(1); err == nil {
			k.Settle(60*time.Second, 2000, nil)
			check("after-restart")
		}
	}
	if listKind == "wildcard" {
		// positive direction: what an outsider wrote and delivered with its own identity is merged
		have := LogHashSet(c.Stores[1])
		merged := 0
		for h := range allowedForeign {
			if have[h] {
				merged++
			}
		}
		k.Notes["wildcard_foreign_merged"] = merged
	}
	k.Notes["cells"] = len(cells)
	k.Notes["nontrivial"] = len(cells) >= 2 && replicatedOnR
	_ = idp.Identity{}
	c.CloseAll()
}

var _ = context.Background
