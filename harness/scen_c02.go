package sim

import (
	"fmt"
	"time"
)

func init() {
	Register(&Scenario{Prop: "C02", Name: "converge-after-heal", Run: scenC02, SoftParks: true, Weight: 1,
		Rule: "2-4 writer replicas of one database (type drawn per run); 3-12 (thorough 3-36) writes interleaved with kernel steps under drop/dup/reorder of announcements and direct-channel payloads, link cuts/heals, block fetches that end with an error (1 run in 3: pending fetches failed by the kernel; 1 in 3: the first 1-3, 1-8 or 1-20 fetches, counted over all replicas, of about half the entries), crash or clean stop + restart (open + Load(-1); 1 restart in 4 goes on without Load: the store merges and writes on a fresh log, after which only 'every replica holds every write' is judged, and the unloaded store is not owed what it had held before, which a Load would show); one operation in fourteen is a round on a healthy network (every replica up, links up, membership settled, no faults): two replicas write at the same moment and 30 virtual seconds later every replica holds both writes, from the announcements alone; final phase: writes stop, crashed peers restart, every link is cut until both sides observed it, then all links heal and no further fault occurs; oracle: within 180 virtual seconds and 6000 kernel steps the world is at rest and every replica holds every acknowledged write and all replicas show equal state; non-trivial = at least one fault fired and at least one entry reached some replica only after the final heal; writes include bursts of 2-3 concurrent writers on one replica (stepped through the write path, or free-running under seeded yields)"})
}

func scenC02(k *K) {
	types := []string{"keyvalue", "eventlog", "docstore"}
	typ := types[k.C.Intn(3)]
	n := k.C.Range(2, 4)
	conc := []uint{1, 2, 32}[k.C.Intn(3)]
	c := k.NewCluster(ClusterCfg{N: n, Type: typ, PeerOpts: append(transportOpt(k), WithKnobs(Knobs{Concurrency: conc}))})
	k.F = swarmFaults(k, true)
	if k.C.Chance(1, 2) {
		k.F.Cut, k.F.Heal = 2, 1
	}
	// a fetch across a link that is cut, or from a peer that went down, ends with an error
	// sooner or later: 1 run in 3 fails pending fetches, 1 in 3 fails the first fetches of
	// about half the entries (until the final phase)
	c.GapFillMax = []int{3, 8, 20}[k.C.Intn(3)]
	c.FetchFailures()
	k.W.HoldOnCut = k.C.Chance(1, 2)
	nops := k.C.Range(3, 12)
	if Tier == "thorough" {
		nops = k.C.Range(3, 36)
	}
	faultsBefore := func() int {
		k.W.mu.Lock()
		defer k.W.mu.Unlock()
		s := k.W.Stats
		return s["drop"] + s["dup"] + s["reorder"] + s["cut"] + s["crash"] + s["clean-stop"] + s["crash@effect"]
	}
	unloaded := false
	onDisk := map[int]map[string]bool{}
	for i := 0; i < nops; i++ {
		switch k.C.Weighted([]int{8, 1, 2, 2, 1}) {
		case 4:
			// a round on a healthy network: every replica up, all links up and the membership
			// settled, no drops, reordering, stalls or failing fetches during and after; two
			// replicas write at the same moment (their announcements may reach a third one in
			// the same quantum); 30 virtual seconds later every replica holds both writes, from
			// the announcements alone (no head exchange follows)
			up := 0
			for _, st := range c.Stores {
				if st != nil {
					up++
				}
			}
			if up == n && n >= 2 && !unloaded {
				savedF, savedGap := k.F, c.GapFill
				c.GapFill = false
				for a := 0; a < n; a++ {
					for b := a + 1; b < n; b++ {
						k.Heal(a, b)
					}
				}
				k.F = BenignCfg()
				k.Settle(8*time.Second, 400, nil)
				k.F = BenignCfg()
				k.F.Burst = 4
				w1 := k.C.Intn(n)
				w2 := (w1 + 1 + k.C.Intn(n-1)) % n
				var recs []*WriteRec
				for _, node := range []int{w1, w2} {
					if wr := c.RandomWrite(node); wr != nil {
						recs = append(recs, wr)
					}
				}
				// deliveries and fetch completions one at a time or several in one quantum
				for j := 0; j < 120; j++ {
					if en, _ := k.PendingCount(); en == 0 && j > 10 {
						break
					}
					k.Step()
				}
				k.Settle(30*time.Second, 1500, nil)
				for _, wr := range recs {
					for i, st := range c.Stores {
						if st != nil && !LogHashSet(st)[wr.Hash] {
							rs, _ := ReplStats(st)
							k.Failf("C02/announcement-not-acted-on", "on a healthy network n%d wrote %s (another replica wrote at the same moment); 30 virtual seconds later n%d has not got it (replicator %+v; pending=%v)", wr.Node, wr.Name, i, rs, k.PendingDesc())
						}
					}
				}
				k.W.Stat("round-on-a-healthy-network")
				k.F, c.GapFill = savedF, savedGap
			}
		case 3:
			// 2-3 concurrent writers on one replica, stepped through the write path (or
			// free-running under seeded yields) while announcements are lost or held
			node := k.C.Intn(n)
			if c.Stores[node] != nil {
				c.WriteBurst(node, k.C.Range(2, 3), k.C.Chance(1, 2))
			}
		case 0:
			node := k.C.Intn(n)
			if c.Stores[node] != nil {
				c.RandomWrite(node)
			}
		case 1:
			node := k.C.Intn(n)
			if c.Stores[node] != nil && k.opsInFlightOn(node) == 0 {
				pre := LogHashSet(c.Stores[node])
				c.Down(node, k.C.Chance(2, 3))
				k.Steps(k.C.Intn(8))
				if k.C.Chance(2, 3) {
					if k.C.Chance(1, 4) {
						// restarted and used without being loaded: it merges and writes on
						// top of a fresh log, what it had persisted is still announced
						if err := c.UpWithoutLoad(node); err != nil {
							k.Failf("C02/restart-load-error", "restart of n%d failed: %v", node, err)
						}
						unloaded = true
						// what it held is on its disk and a Load away; nobody owes it these
						// entries again
						if onDisk[node] == nil {
							onDisk[node] = map[string]bool{}
						}
						for h := range pre {
							onDisk[node][h] = true
						}
					} else if err := c.Up(node); err != nil {
						k.Failf("C02/restart-load-error", "restart of n%d failed: %v", node, err)
					}
				}
			}
		case 2:
			k.Steps(k.C.Intn(12))
		}
		k.Steps(k.C.Intn(5))
	}
	nfaults := faultsBefore()
	// ---- final phase, as the property's quantifier states it ----
	for i := range c.Stores {
		if c.Stores[i] == nil {
			if err := c.Up(i); err != nil {
				k.Failf("C02/restart-load-error", "restart of n%d failed: %v", i, err)
			}
		}
	}
	before := make([]int, n)
	for i, s := range c.Stores {
		before[i] = len(LogHashSet(s))
	}
	k.F = BenignCfg()
	c.GapFill = false
	k.W.mu.Lock()
	k.W.FailWant = map[string]int{}
	k.W.mu.Unlock()
	for a := 0; a < n; a++ {
		for b := a + 1; b < n; b++ {
			if !k.W.IsCut(a, b) {
				k.Cut(a, b)
			}
		}
	}
	// long enough for every poller (1 s) to observe the cut
	for j := 0; j < 60; j++ {
		k.Step()
	}
	k.Tick(2500 * time.Millisecond)
	for j := 0; j < 40; j++ {
		if en, _ := k.PendingCount(); en == 0 {
			break
		}
		k.Step()
	}
	k.Tick(1500 * time.Millisecond)
	for a := 0; a < n; a++ {
		for b := a + 1; b < n; b++ {
			k.Heal(a, b)
		}
	}
	healStep := k.W.step
	rest := k.Settle(180*time.Second, 6000, c.AllIdle)
	// ---- oracle ----
	var missing []string
	for i, s := range c.Stores {
		have := LogHashSet(s)
		for _, wr := range c.Writes {
			if !have[wr.Hash] && !onDisk[i][wr.Hash] {
				missing = append(missing, fmt.Sprintf("n%d lacks %s (written on n%d)", i, wr.Name, wr.Node))
			}
		}
	}
	if len(missing) > 0 {
		var st []string
		for i, s := range c.Stores {
			rs, _ := ReplStats(s)
			st = append(st, fmt.Sprintf("n%d: len=%d repl=%+v heads=%v log=%v", i, len(LogHashSet(s)), rs, c.names(HeadHashes(s)), LogNames(s)))
		}
		k.Failf("C02/missing-after-heal", "%d steps and %v virtual after the final heal (rest reached: %v): %v; %v; pending=%v", k.W.step-healStep, "<=180s", rest, missing, st, k.PendingDesc())
	}
	if !rest {
		var st []string
		for i, s := range c.Stores {
			rs, _ := ReplStats(s)
			st = append(st, fmt.Sprintf("n%d: repl=%+v", i, rs))
		}
		k.Failf("C02/no-quiescence", "all writes present but the world is not at rest 180 virtual seconds after the heal: %v pending=%v inflight=%d", st, k.PendingDesc(), k.opsInFlight())
	}
	if unloaded {
		// a writer that wrote on a store it had not loaded may have used a Lamport time of its
		// own a second time; the order of two such entries is not defined (DESIGN §8, 23), so
		// only the first half of the property, every replica holds every write, is judged
		k.W.Stat("state-equality-not-judged-after-unloaded-restart")
		k.Notes["nontrivial"] = nfaults > 0
		c.CloseAll()
		return
	}
	c.PairwiseAgreement("C02")
	first := VisibleState(c.Stores[0])
	for i, s := range c.Stores {
		if vs := VisibleState(s); vs != first {
			k.Failf("C02/state-differs", "after convergence n0 shows %s but n%d shows %s", first, i, vs)
		}
	}
	late := 0
	for i, s := range c.Stores {
		if len(LogHashSet(s)) > before[i] {
			late++
		}
	}
	k.Notes["faults"] = nfaults
	k.Notes["late_replicas"] = late
	k.Notes["writes"] = len(c.Writes)
	k.Notes["nontrivial"] = nfaults > 0 && late > 0
	c.CloseAll()
}
