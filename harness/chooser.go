package sim

import (
	"fmt"
	"math/rand/v2"
)

// Chooser is the single source of every decision of a run: schedule, faults and generated
// workload. In search mode the values come from one PCG stream seeded with the run seed; in
// replay mode they come from a recorded list (values past its end are 0, the most benign
// choice). Every value drawn is recorded, so that (choices) is a complete replay file.
type Chooser struct {
	rng       *rand.Rand
	replay    []int
	replaying bool
	pos       int
	Rec       []int
	Log       func(v int) // optional: called for every value drawn (crash forensics)
	// lazyFrom > 0: from that draw on every value is 0, the most benign choice (FIFO delivery,
	// no fault, nothing released early): one run in ten ends with such a "lazy kernel" tail,
	// which is the part of the space that minimisation by truncation lives in
	lazyFrom int
}

// drawDebug, when set (VERIF_DRAWLOG=<file>), is told about every draw: forensics for runs
// whose digests differ from one execution to the next
var drawDebug func(pos, n, v int)

func NewChooser(seed uint64) *Chooser {
	c := &Chooser{rng: rand.New(rand.NewPCG(seed, 0x9e3779b97f4a7c15))}
	if c.rng.IntN(10) == 0 {
		c.lazyFrom = 20 + c.rng.IntN(400)
	}
	return c
}

func NewReplayChooser(choices []int) *Chooser {
	return &Chooser{replay: choices, replaying: true}
}

// Intn returns a value in [0,n). n<=1 consumes nothing.
func (c *Chooser) Intn(n int) int {
	if n <= 1 {
		return 0
	}
	var v int
	if c.replaying {
		if c.pos < len(c.replay) {
			v = c.replay[c.pos]
			if v < 0 {
				v = 0
			}
			v %= n
		}
	} else if c.lazyFrom > 0 && c.pos >= c.lazyFrom {
		v = 0
	} else {
		v = c.rng.IntN(n)
	}
	c.pos++
	c.Rec = append(c.Rec, v)
	if drawDebug != nil {
		drawDebug(c.pos, n, v)
	}
	if c.Log != nil {
		c.Log(v)
	}
	return v
}

// Range returns a value in [lo,hi].
func (c *Chooser) Range(lo, hi int) int {
	if hi <= lo {
		return lo
	}
	return lo + c.Intn(hi-lo+1)
}

// Chance is true with probability num/den; the recorded value 0 always means false.
func (c *Chooser) Chance(num, den int) bool {
	if num <= 0 {
		return false
	}
	if num >= den {
		return true
	}
	return c.Intn(den) >= den-num
}

// Weighted picks an index with probability proportional to ws[i]; recorded 0 maps to the
// first index with a non-zero weight.
func (c *Chooser) Weighted(ws []int) int {
	sum := 0
	for _, w := range ws {
		if w > 0 {
			sum += w
		}
	}
	if sum == 0 {
		return -1
	}
	v := c.Intn(sum)
	for i, w := range ws {
		if w <= 0 {
			continue
		}
		if v < w {
			return i
		}
		v -= w
	}
	panic(fmt.Sprintf("weighted: unreachable %v", ws))
}

// Perm returns a permutation of 0..n-1 (identity when all recorded values are 0).
func (c *Chooser) Perm(n int) []int {
	p := make([]int, n)
	for i := range p {
		p[i] = i
	}
	for i := 0; i < n-1; i++ {
		j := i + c.Intn(n-i)
		p[i], p[j] = p[j], p[i]
	}
	return p
}
