package sim

import (
	"context"
	"encoding/json"
	"fmt"
	"sort"
	"strings"
	"time"

	ipfslog "berty.tech/go-ipfs-log"
	"berty.tech/go-orbit-db/iface"
	"berty.tech/go-orbit-db/stores/operation"
)

func init() {
	Register(&Scenario{Prop: "C07", Name: "docstore-lww", Run: scenC07, SoftParks: true, Weight: 1,
		Rule: "1-3 writer replicas of one document database; 3-14 (thorough 3-40) operations drawn from Put, PutBatch, PutAll (overlapping key sets), Delete (present and absent keys) over mixed-case keys of letters, digits and punctuation, interleaved with replication under faults (one operation in ten arms a disk error for the next write of the merged heads on one replica: the merge stands, documents and log must still agree); at every quiescent step each replica's documents must equal the LWW replay of its own log; at checkpoints Get with all four option combinations over every key, every 1-2 character infix and case variants, and four Query predicates are compared with the model; Delete of an absent key must fail and append nothing; non-trivial = >=3 writes including a batch put and an overlapping later/earlier single operation on one of its keys; one operation in six is a burst of 2-3 concurrent local writers stepped through the write path or free-running (the client of one of them may give up mid-write), with 0-2 readers asking for every document (Get with a partial match on the empty key, or Query) beside them: a reader must not fail, and what it is given must be the documents of one state between its call and its return (the replay of the entries the documents last agreed with plus any subset of the entries that came since, in the log order)"})
}

var c07Keys = []string{"Ab", "ab", "aB.c", "x-1", "X-1", "ab2", "Q_q"}

func scenC07(k *K) {
	n := k.C.Range(1, 3)
	c := k.NewCluster(ClusterCfg{N: n, Type: "docstore"})
	k.F = swarmFaults(k, true)
	c.FetchFailures()
	nkeys := k.C.Range(2, len(c07Keys))
	nops := k.C.Range(3, 14)
	if Tier == "thorough" {
		nops = k.C.Range(3, 40)
	}
	agreed := map[int]map[string]bool{}
	checkState := func(where string) {
		for i, s := range c.Stores {
			if s == nil {
				continue
			}
			if k.opsInFlightOn(i) > 0 {
				continue // a write that has not returned may be in the log and not yet in the documents
			}
			want := ReplayLWW(LogValues(s))
			got, err := docState(s.(iface.DocumentStore))
			if err != nil {
				k.Failf("C07/query-error", "%s: n%d Query(true): %v", where, i, err)
			}
			if !EqMap(want, got) {
				k.Failf("C07/lww-mismatch", "%s: n%d documents=%s but LWW replay of its %d-entry log gives %s; log=%v", where, i, MapStr(got), len(LogValues(s)), MapStr(want), LogNames(s))
			}
			agreed[i] = LogHashSet(s)
		}
		c.CheckCausalOrder("C07")
	}
	readAtSomeState := func(node int, base map[string]bool, got map[string]string) (bool, string) {
		return ReadAtSomeState(k, c.Stores[node], base, got)
	}
	k.Invariant = func() { checkState("step") }
	batchKeys := map[string]bool{}
	overlap := false
	gets := 0
	doc := func(key, val string) map[string]interface{} { return map[string]interface{}{"_id": key, "v": val} }
	c.BurstCancel = k.C.Chance(1, 2)
	for i := 0; i < nops; i++ {
		node := k.C.Intn(n)
		if n > 1 && k.C.Chance(1, 10) {
			// the next write of the merged heads to the cache fails on one replica (disk error
			// at the end of a merge): what was merged is in its log, and in its documents
			nd := c.Peers[k.C.Intn(n)].Node
			k.W.mu.Lock()
			k.W.DiskFault = func(on *Node, kind, space, key string) error {
				if on == nd && kind == "cache-put" && strings.HasSuffix(key, "_remoteHeads") {
					k.W.DiskFault = nil
					k.W.stat("merge-heads-write-failed")
					return fmt.Errorf("sim: disk error on %s", key)
				}
				return nil
			}
			k.W.mu.Unlock()
			k.cleanups = append(k.cleanups, func() { k.W.mu.Lock(); k.W.DiskFault = nil; k.W.mu.Unlock() })
		}
		if k.C.Chance(1, 6) {
			// concurrent local writers (put, batch put, delete on a small key set); the client
			// of one of them may give up mid-write
			// 0-2 readers ask for every document (partial match on the empty key, or a query
			// that accepts all) while the writers are at work: the answer is the documents of
			// some moment in between, never an error
			dsr := c.Stores[node].(iface.DocumentStore)
			var readers []*Op
			base := agreed[node] // as of the last quiescent comparison before the readers start
			for r, m := 0, k.C.Range(0, 2); r < m; r++ {
				viaQuery := k.C.Chance(1, 2)
				readers = append(readers, k.Go(node, "read-all-during-burst", func() (interface{}, error) {
					if viaQuery {
						return dsr.Query(context.Background(), func(interface{}) (bool, error) { return true, nil })
					}
					return dsr.Get(context.Background(), "", &iface.DocumentStoreGetOptions{PartialMatches: true})
				}))
			}
			c.WriteBurst(node, k.C.Range(2, 3), k.C.Chance(1, 2))
			for _, r := range readers {
				for j := 0; j < 50 && !k.IsDone(r); j++ {
					k.Step()
				}
				if !k.IsDone(r) {
					k.Failf("C07/read-hang", "a Get/Query for all documents started during concurrent writes did not return")
				}
				if r.Err != nil {
					k.Failf("C07/read-error", "a Get/Query for all documents that ran while local writers (put, batch put, delete) were at work failed: %v", r.Err)
				}
				k.W.Stat("read-all-concurrent-with-writes")
				docs, _ := r.Val.([]interface{})
				if ok, why := readAtSomeState(node, base, docsByID(docs)); !ok {
					k.Failf("C07/read-matches-no-state", "n%d: a Get/Query for all documents that ran beside concurrent writers returned %s, which is the documents of no state between its call and its return (%s)", node, MapStr(docsByID(docs)), why)
				}
			}
			k.Steps(k.C.Intn(6))
			checkState("after-burst")
			continue
		}
		ds := c.Stores[node].(iface.DocumentStore)
		key := c07Keys[k.C.Intn(nkeys)]
		switch k.C.Weighted([]int{4, 3, 2, 2}) {
		case 0:
			val := c.NextVal(node)
			if _, err := c.Write(node, fmt.Sprintf("docput %s=%s", key, val), func(ctx context.Context) (operation.Operation, error) { return ds.Put(ctx, doc(key, val)) }); err != nil {
				k.Failf("C07/write-error", "Put failed: %v", err)
			}
			overlap = overlap || batchKeys[key]
		case 1:
			m := k.C.Range(1, 3)
			var docs []interface{}
			desc := ""
			for j := 0; j < m; j++ {
				kk := c07Keys[k.C.Intn(nkeys)]
				v := c.NextVal(node)
				docs = append(docs, doc(kk, v))
				desc += kk + "=" + v + ","
				batchKeys[kk] = true
			}
			if _, err := c.Write(node, "putall "+desc, func(ctx context.Context) (operation.Operation, error) { return ds.PutAll(ctx, docs) }); err != nil {
				k.Failf("C07/write-error", "PutAll failed: %v", err)
			}
		case 2:
			m := k.C.Range(1, 3)
			var docs []interface{}
			desc := ""
			for j := 0; j < m; j++ {
				kk := c07Keys[k.C.Intn(nkeys)]
				v := c.NextVal(node)
				docs = append(docs, doc(kk, v))
				desc += kk + "=" + v + ","
				overlap = overlap || batchKeys[kk]
			}
			// PutBatch appends one entry per document; record them all through the log diff
			before := LogHashSet(ds)
			op := k.Do(node, "putbatch "+desc, 20, func() (interface{}, error) {
				ctx, cancel := OpCtx(60 * time.Second)
				defer cancel()
				return ds.PutBatch(ctx, docs)
			})
			if !op.Done || op.Err != nil {
				k.Failf("C07/write-error", "PutBatch failed: done=%v err=%v", op.Done, op.Err)
			}
			for _, e := range LogValues(ds) {
				h := e.GetHash().String()
				if !before[h] && c.ByHash[h] == nil && e.GetIdentity().ID == ds.Identity().ID {
					c.RecordWrite(node, op, e, before)
				}
			}
		case 3:
			present := ds.Index().Get(key) != nil
			lenBefore := ds.OpLog().Len()
			hashesBefore := LogHashSet(ds)
			wr, err := c.Write(node, "docdel "+key, func(ctx context.Context) (operation.Operation, error) { return ds.Delete(ctx, key) })
			// a replication that was under way may have merged an operation on this key between
			// the reading above and the call's own look at the documents: then either answer
			// of the call is right
			raced := false
			for _, e := range LogValues(ds) {
				if h := e.GetHash().String(); !hashesBefore[h] && (wr == nil || h != wr.Hash) {
					if o, ok := decodeOp(e.GetPayload()); ok {
						if o.Key != nil && *o.Key == key {
							raced = true
						}
						for _, d := range o.Docs {
							if d.Key == key {
								raced = true
							}
						}
					}
				}
			}
			if raced {
				k.W.Stat("delete-raced-with-merge")
			} else if !present {
				if err == nil {
					k.Failf("C07/delete-absent-accepted", "n%d Delete(%q) of an absent key returned success (%v)", node, key, wr.Name)
				}
				if ds.OpLog().Len() != lenBefore && k.opsInFlight() == 0 {
					k.W.Stat("delete-absent-log-grew-concurrently")
				}
			} else if err != nil {
				k.Failf("C07/write-error", "Delete of present key %q failed: %v", key, err)
			} else {
				overlap = overlap || batchKeys[key]
			}
		}
		k.Steps(k.C.Intn(6))
		checkState("after-op")
		if k.C.Chance(1, 3) {
			gets += c07Queries(k, c, k.C.Intn(n), nkeys)
		}
	}
	k.Settle(90*time.Second, 3000, c.AllIdle)
	checkState("rest")
	for r := 0; r < n; r++ {
		gets += c07Queries(k, c, r, nkeys)
	}
	k.Notes["get_checks"] = gets
	k.Notes["writes"] = len(c.Writes)
	k.Notes["nontrivial"] = len(c.Writes) >= 3 && len(batchKeys) > 0 && overlap
	c.CloseAll()
}

func docState(ds iface.DocumentStore) (map[string]string, error) {
	docs, err := ds.Query(context.Background(), func(interface{}) (bool, error) { return true, nil })
	if err != nil {
		return nil, err
	}
	return docsByID(docs), nil
}

func docsByID(docs []interface{}) map[string]string {
	out := map[string]string{}
	for _, d := range docs {
		m, _ := d.(map[string]interface{})
		id, _ := m["_id"].(string)
		b, _ := json.Marshal(d)
		if _, dup := out[id]; dup {
			out[id+"#dup"] = string(b)
		}
		out[id] = string(b)
	}
	return out
}

func c07Queries(k *K, c *Cluster, r int, nkeys int) int {
	ds := c.Stores[r].(iface.DocumentStore)
	state := ReplayLWW(LogValues(ds)) // key -> json
	checks := 0
	terms := map[string]bool{}
	for _, key := range c07Keys[:nkeys] {
		terms[key] = true
		terms[strings.ToLower(key)] = true
		terms[strings.ToUpper(key)] = true
		for i := 0; i < len(key); i++ {
			terms[key[i:i+1]] = true
			if i+2 <= len(key) {
				terms[key[i:i+2]] = true
			}
		}
	}
	var ts []string
	for t := range terms {
		ts = append(ts, t)
	}
	sort.Strings(ts)
	for _, term := range ts {
		for _, ci := range []bool{false, true} {
			for _, pm := range []bool{false, true} {
				var want []string
				for key, js := range state {
					a, b := key, term
					if ci {
						a, b = strings.ToLower(a), strings.ToLower(b)
					}
					if (!pm && a == b) || (pm && strings.Contains(a, b)) {
						want = append(want, js)
					}
				}
				sort.Strings(want)
				res, err := ds.Get(context.Background(), term, &iface.DocumentStoreGetOptions{CaseInsensitive: ci, PartialMatches: pm})
				if err != nil {
					k.Failf("C07/get-error", "n%d Get(%q,ci=%v,partial=%v): %v", r, term, ci, pm, err)
				}
				got := jsonList(res)
				checks++
				if !EqStrs(got, want) {
					k.Failf("C07/get-mismatch", "n%d Get(%q, caseInsensitive=%v, partial=%v) = %v, model over state %s gives %v", r, term, ci, pm, got, MapStr(state), want)
				}
			}
		}
	}
	preds := map[string]func(m map[string]interface{}) bool{
		"true":    func(map[string]interface{}) bool { return true },
		"false":   func(map[string]interface{}) bool { return false },
		"v-has-0": func(m map[string]interface{}) bool { s, _ := m["v"].(string); return strings.HasPrefix(s, "w0.") },
		"key-prefix": func(m map[string]interface{}) bool {
			s, _ := m["_id"].(string)
			return strings.HasPrefix(strings.ToLower(s), "a")
		},
	}
	var pn []string
	for p := range preds {
		pn = append(pn, p)
	}
	sort.Strings(pn)
	for _, name := range pn {
		pred := preds[name]
		var want []string
		for _, js := range state {
			var m map[string]interface{}
			_ = json.Unmarshal([]byte(js), &m)
			if pred(m) {
				want = append(want, js)
			}
		}
		sort.Strings(want)
		res, err := ds.Query(context.Background(), func(d interface{}) (bool, error) { m, _ := d.(map[string]interface{}); return pred(m), nil })
		if err != nil {
			k.Failf("C07/query-error", "n%d Query(%s): %v", r, name, err)
		}
		checks++
		if got := jsonList(res); !EqStrs(got, want) {
			k.Failf("C07/query-mismatch", "n%d Query(%s) = %v, model gives %v", r, name, got, want)
		}
	}
	return checks
}

func jsonList(res []interface{}) []string {
	var out []string
	for _, d := range res {
		b, _ := json.Marshal(d)
		out = append(out, string(b))
	}
	sort.Strings(out)
	return out
}

func EntryNames(es []ipfslog.Entry) []string {
	var out []string
	for _, e := range es {
		out = append(out, EntryName(e))
	}
	return out
}

// readAtSomeState: what a reader that ran beside writers and merges was given must be the
// documents of ONE state the replica went through meanwhile. Every such state is the
// replay of the entries the documents were last seen to agree with plus some of the
// entries that have come since, in the log's order (an over-approximation: sets that
// never existed are accepted too, so that a mismatch is a mismatch with all of them)
func ReadAtSomeState(k *K, st iface.Store, base map[string]bool, got map[string]string) (bool, string) {
	var all, fresh []ipfslog.Entry
	all = LogValues(st)
	for _, e := range all {
		if !base[e.GetHash().String()] {
			fresh = append(fresh, e)
		}
	}
	if len(fresh) > 12 {
		k.W.Stat("read-beside-writers-not-judged(too many new entries)")
		return true, ""
	}
	for mask := 0; mask < 1<<len(fresh); mask++ {
		in := map[string]bool{}
		for j, e := range fresh {
			if mask&(1<<j) != 0 {
				in[e.GetHash().String()] = true
			}
		}
		var sub []ipfslog.Entry
		for _, e := range all {
			if h := e.GetHash().String(); base[h] || in[h] {
				sub = append(sub, e)
			}
		}
		if EqMap(ReplayLWW(sub), got) {
			return true, ""
		}
	}
	return false, fmt.Sprintf("documents last seen in agreement with %d entries, %d entries since: %v", len(all)-len(fresh), len(fresh), EntryNames(fresh))
}
