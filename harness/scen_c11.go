package sim

import (
	"context"
	"fmt"
	"strings"
	"time"

	ipfslog "berty.tech/go-ipfs-log"
	orbitdb "berty.tech/go-orbit-db"
	"berty.tech/go-orbit-db/iface"
)

func init() {
	Register(&Scenario{Prop: "C11", Name: "abort-then-retry", Run: scenC11, SoftParks: true, Weight: 1,
		Rule: "source S with a chain or fork log of 2-6 entries and receiver R (ReplicationConcurrency in {1,2,32}; automatic replication switched off so that only explicit requests replicate); a sequence of 1-3 requests (Sync with its own context, or the blocking LoadMoreFrom), S possibly writing in between; ONE request is aborted at opportunity number j drawn per run, opportunities being counted as they occur: before the call, every arrival of one of R's goroutines at the hooks replicator.before-slot / after-slot / after-dequeue / before-done / store.load-end, and every block request R registers; abort kind drawn per run: cancel the context, cancel it in the very quantum in which one of its block fetches completes, fail the block request (once, or 2-9 times in a row so that the retries of up to 8 later requests fail too), or let the virtual clock pass the context's deadline; parked goroutines and fetch completions are released in drawn order; finally an uncancelled Sync of S's current heads, issued once everything in flight has finished or failed, or (2 runs in 5) 0-12 kernel steps after the last request, while parked workers of the aborted request have not yet noticed that it is over; oracle: at rest R holds every entry of S's log; non-trivial = the abort really happened at an opportunity >= 1 while the request was in flight"})
}

func scenC11(k *K) {
	conc := []uint{1, 2, 32}[k.C.Intn(3)]
	no := false
	typ := []string{"keyvalue", "eventlog"}[k.C.Intn(2)]
	c := k.NewCluster(ClusterCfg{N: 2, Type: typ, Writers: []int{0, 1},
		PeerOpts:   []PeerOpt{WithKnobs(Knobs{Concurrency: conc, RefCount: []int{1, 2, 64}[k.C.Intn(3)]})},
		CreateOpts: func(i int) *orbitdb.CreateDBOptions { return &orbitdb.CreateDBOptions{Replicate: &no} }})
	S, R := c.Stores[0], c.Stores[1]
	fork := k.C.Chance(1, 3)
	for i, m := 0, k.C.Range(2, 6); i < m; i++ {
		c.RandomWrite(0)
	}
	if fork {
		c.RandomWrite(1) // R's own branch: S's heads and R's head fork
	}
	rAddr := R.Address().String()
	k.InstallHooks(func(pt string, owner interface{}) bool {
		switch pt {
		case "replicator.before-slot", "replicator.after-slot", "replicator.after-dequeue", "replicator.before-done", "store.load-end":
			return OwnerStoreID(owner) == rAddr
		}
		return false
	})
	k.F = FaultCfg{Serve: 4, ServeAny: 3, Release: 6, Tick: 1}
	nreq := k.C.Range(1, 3)
	victim := k.C.Intn(nreq)
	targetOpp := k.C.Intn(24)
	// cancel-race: the request is cancelled in the very quantum in which one of its block
	// fetches completes; fail-fetch may hit the same block several times in a row (it fails
	// again when later requests retry it)
	abortKind := []string{"cancel", "fail-fetch", "timeout", "cancel-race"}[k.C.Intn(4)]
	failTimes := 1
	if abortKind == "fail-fetch" && k.C.Chance(1, 2) {
		failTimes = k.C.Range(2, 9)
		nreq = k.C.Range(min(failTimes, 6), 8)
		victim = 0
	}
	aborted := false
	abortedAt := ""
	seenPark := map[int]bool{}
	seenWant := map[*Pend]bool{}
	opp := 0
	var cancelVictim context.CancelFunc
	deadline := 40 * time.Second
	rIdx := c.Peers[1].Node.Idx
	doAbort := func(what string, want *Pend) {
		aborted = true
		abortedAt = fmt.Sprintf("%s#%d", what, opp)
		k.W.mu.Lock()
		k.W.tr("ABORT %s at opportunity %d (%s)", abortKind, opp, what)
		k.W.stat("abort:" + abortKind + "@" + strings.SplitN(what, " ", 2)[0])
		k.W.mu.Unlock()
		switch abortKind {
		case "cancel":
			cancelVictim()
		case "fail-fetch":
			if want != nil {
				k.W.mu.Lock()
				k.W.FailWant[want.c.String()] = failTimes
				k.W.mu.Unlock()
			} else {
				cancelVictim()
			}
		case "cancel-race":
			if want != nil {
				k.W.mu.Lock()
				if k.W.enabledLocked(want) {
					k.W.tr("serve+cancel %s", want)
					k.W.stat("cancel-races-completion")
					k.W.execLocked(want)
				}
				k.W.mu.Unlock()
			}
			cancelVictim()
		case "timeout":
			k.Tick(deadline + time.Second)
		}
	}
	scan := func(inVictim bool) {
		for _, p := range k.Parks() {
			if !seenPark[p.ID] {
				seenPark[p.ID] = true
				if inVictim && !aborted && opp == targetOpp {
					doAbort("park "+p.Point, nil)
				}
				opp++
			}
		}
		k.W.mu.Lock()
		var ws []*Pend
		for _, p := range k.W.pending {
			if p.kind == pkWant && p.src == rIdx && !seenWant[p] {
				seenWant[p] = true
				ws = append(ws, p)
			}
		}
		k.W.mu.Unlock()
		for _, p := range ws {
			if inVictim && !aborted && opp == targetOpp {
				doAbort("want", p)
			}
			opp++
		}
	}
	for r := 0; r < nreq; r++ {
		heads := CopyHeads(S.OpLog().Heads().Slice())
		ctx, cancel := context.WithCancel(context.Background())
		if r == victim && abortKind == "timeout" {
			ctx, cancel = context.WithTimeout(context.Background(), deadline)
		}
		k.cleanups = append(k.cleanups, func() { cancel() })
		isVictim := r == victim
		if isVictim {
			cancelVictim = cancel
			if targetOpp == 0 && abortKind != "fail-fetch" {
				doAbort("before-call", nil)
			}
			opp++
		}
		useLoadMore := k.C.Chance(1, 3)
		var op *Op
		if useLoadMore {
			op = k.Go(rIdx, fmt.Sprintf("load-more-from #%d", r), func() (interface{}, error) {
				R.(interface {
					LoadMoreFrom(ctx context.Context, amount uint, entries []ipfslog.Entry)
				}).LoadMoreFrom(ctx, 0, heads)
				return nil, nil
			})
		} else {
			op = k.Go(rIdx, fmt.Sprintf("sync #%d", r), func() (interface{}, error) { return nil, R.Sync(ctx, heads) })
		}
		// drive this request for a while (it may stay in flight when the next one starts)
		steps := k.C.Range(5, 80)
		for j := 0; j < steps; j++ {
			k.Wait()
			scan(isVictim)
			k.Step()
		}
		_ = op
		if k.C.Chance(1, 3) {
			c.RandomWrite(0)
		}
	}
	// let what is still in flight finish or fail - or not: the final request may also come while
	// workers of the aborted one have not noticed yet that their request is over
	drain := []int{300, 300, 0, 2, 12}[k.C.Intn(5)]
	if drain < 300 {
		k.W.Stat("final-request-overlaps-aborted-one")
	}
	for j := 0; j < drain; j++ {
		k.Wait()
		scan(true)
		if en, _ := k.PendingCount(); en == 0 && len(k.Parks()) == 0 {
			break
		}
		k.Step()
	}
	if cancelVictim != nil && abortKind == "cancel" && !aborted {
		// the drawn opportunity was never reached: plain run
	}
	// the final, uncancelled request (no injected failure is left over for it)
	k.W.mu.Lock()
	k.W.FailWant = map[string]int{}
	k.W.mu.Unlock()
	final := CopyHeads(S.OpLog().Heads().Slice())
	k.Go(rIdx, "final-sync", func() (interface{}, error) { return nil, R.Sync(context.Background(), final) })
	k.F = FaultCfg{Serve: 4, ServeAny: 3, Release: 6, Tick: 1}
	rest := k.Settle(180*time.Second, 6000, func() bool { return ReplicatorIdle(R) })
	have := LogHashSet(R)
	var missing []string
	for _, e := range LogValues(S) {
		if !have[e.GetHash().String()] {
			missing = append(missing, EntryName(e))
		}
	}
	if len(missing) > 0 {
		rs, _ := ReplStats(R)
		k.Failf("C11/wedged/"+abortKind, "request #%d of %d was aborted (%s) at %s (concurrency %d); after a final uncancelled Sync of the source's heads R at rest (%v) still lacks %d of %d entries: %v; replicator %+v; parks=%d pending=%v", victim, nreq, abortKind, abortedAt, conc, rest, len(missing), len(LogValues(S)), missing, rs, len(k.Parks()), k.PendingDesc())
	}
	if kv, ok := R.(iface.KeyValueStore); ok {
		if want, got := ReplayLWW(LogValues(R)), KVState(kv); !EqMap(want, got) {
			k.Failf("C11/view-differs", "R's view %s is not the replay of its log %s", MapStr(got), MapStr(want))
		}
	}
	if !rest && aborted {
		rs, _ := ReplStats(R)
		k.Failf("C11/never-idle/"+abortKind, "all entries arrived but R's replicator never became idle again after the abort at %s: %+v parks=%d pending=%v", abortedAt, rs, len(k.Parks()), k.PendingDesc())
	}
	k.Notes["opportunities"] = opp
	k.Notes["aborted"] = aborted
	k.Notes["nontrivial"] = aborted && !strings.HasPrefix(abortedAt, "before-call")
	UninstallHooks()
	c.CloseAll()
}
