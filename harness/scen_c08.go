package sim

import (
	"context"
	"fmt"
	"strings"
	"time"

	"berty.tech/go-orbit-db/iface"
	"berty.tech/go-orbit-db/stores/operation"
	cid "github.com/ipfs/go-cid"
)

func init() {
	Register(&Scenario{Prop: "C08", Name: "eventlog-windows", Run: scenC08, SoftParks: true, Weight: 1,
		Rule: "1-3 writer replicas of one event log; 3-12 (thorough 3-30) Add (one in four a burst of 2-3 concurrent writers, parked at the write-path points or free-running under seeded yields, with 0-2 concurrent List(-1) calls that must return everything listed before they started, in order) interleaved with replication under faults; after every quiescent step each replica's listing must only grow and keep relative order, respect causal order; at checkpoints (listing <= 14 entries) every combination of bound kind {none,gt,gte,lt,lte} x bound position x amount {unset,0,1,2,len-1,len,len+3,-1} is compared with the model window, and Get(hash) for every entry; each checkpoint begins by asking again for the lower bound the previous checkpoint on that replica asked for last (the listing may have grown by a merge in between); non-trivial = >=3 entries and >=1 window check on a listing that contains entries of two writers or >=4 entries"})
}

func scenC08(k *K) {
	n := k.C.Range(1, 3)
	c := k.NewCluster(ClusterCfg{N: n, Type: "eventlog"})
	k.F = swarmFaults(k, true)
	c.FetchFailures()
	nops := k.C.Range(3, 12)
	if Tier == "thorough" {
		nops = k.C.Range(3, 30)
	}
	prev := make([][]string, n)
	windows := 0
	multi := false
	prevList := make([][]string, n)
	reusedClocks := make([]bool, n)
	k.Invariant = func() {
		for i, s := range c.Stores {
			if s == nil {
				continue
			}
			cur := LogHashSeq(s)
			if reusedClocks[i] {
				// this writer wrote before its persisted log was back (see below): only
				// "what is listed stays listed" is demanded from here on
				if !isSubset(prev[i], cur) {
					k.Failf("C08/entry-vanished", "n%d: an entry of the log %v is gone from %v", i, c.names(prev[i]), c.names(cur))
				}
				prev[i] = cur
				continue
			}
			if !isSubsequence(prev[i], cur) {
				k.Failf("C08/not-append-only", "n%d log order changed from %v to %v (an entry vanished or two entries swapped)", i, c.names(prev[i]), c.names(cur))
			}
			prev[i] = cur
			all := -1
			ops, err := s.(iface.EventLogStore).List(context.Background(), &iface.StreamOptions{Amount: &all})
			if err != nil {
				k.Failf("C08/list-error", "List(-1) on n%d: %v", i, err)
			}
			var lst []string
			for _, o := range ops {
				lst = append(lst, o.GetEntry().GetHash().String())
			}
			// what List shows only grows and keeps its order, also while writes are in flight
			if !isSubsequence(prevList[i], lst) {
				k.Failf("C08/not-append-only", "n%d listing changed from %v to %v (an entry vanished or two entries swapped)", i, c.names(prevList[i]), c.names(lst))
			}
			prevList[i] = lst
			if !isSubsequence(lst, cur) {
				k.Failf("C08/list-order", "n%d List(-1) %v is not in the log's order %v", i, c.names(lst), c.names(cur))
			}
			// listing == log order once no local write is between its append and its view update
			if k.opsInFlightOn(i) > 0 {
				continue
			}
			if len(ops) != len(cur) {
				k.Failf("C08/list-length", "n%d List(-1) returned %d entries, log has %d", i, len(ops), len(cur))
			}
			for j, o := range ops {
				if o.GetEntry().GetHash().String() != cur[j] {
					k.Failf("C08/list-order", "n%d List(-1)[%d] is not the log's %d-th entry", i, j, j)
				}
			}
		}
		c.CheckCausalOrder("C08")
	}
	for i := 0; i < nops; i++ {
		node := k.C.Intn(n)
		if k.C.Chance(1, 4) {
			// concurrent local writers (and whatever replication is under way)
			// 1-2 readers list the whole log while the writers are at work: whatever was listed
			// before they started must be in their answer, in order
			el := c.Stores[node].(iface.EventLogStore)
			pre := LogHashSeq(el)
			var readers []*Op
			for r, m := 0, k.C.Range(0, 2); r < m; r++ {
				readers = append(readers, k.Go(node, "list -1", func() (interface{}, error) {
					all := -1
					ops, err := el.List(context.Background(), &iface.StreamOptions{Amount: &all})
					var hs []string
					for _, o := range ops {
						hs = append(hs, o.GetEntry().GetHash().String())
					}
					return hs, err
				}))
			}
			c.WriteBurst(node, k.C.Range(2, 3), k.C.Chance(1, 2))
			for _, r := range readers {
				for j := 0; j < 50 && !k.IsDone(r); j++ {
					k.Step()
				}
				if !k.IsDone(r) || r.Err != nil {
					k.Failf("C08/list-error", "List(-1) concurrent with local writes: done=%v err=%v", k.IsDone(r), r.Err)
				}
				got := r.Val.([]string)
				if reusedClocks[node] {
					if !isSubset(pre, got) {
						k.Failf("C08/entry-vanished", "List(-1) issued while %d entries were listed lacks one of them: %v (%v)", len(pre), c.names(got), c.names(pre))
					}
					continue
				}
				if !isSubsequence(pre, got) {
					k.Failf("C08/window/concurrent-all", "List(-1) issued while %d entries were listed and local writes were under way returned %v: an entry listed before is missing or out of order (%v)", len(pre), c.names(got), c.names(pre))
				}
				if !isSubsequence(got, LogHashSeq(el)) {
					k.Failf("C08/window/concurrent-all", "List(-1) concurrent with local writes returned %v, which is not in the order of the listing %v", c.names(got), LogNames(el))
				}
				k.W.Stat("list-concurrent-with-writes")
			}
			k.Steps(k.C.Intn(6))
			continue
		}
		if len(c.Writes) > 0 && k.opsInFlightOn(node) == 0 && k.C.Chance(1, 16) {
			// clean restart; the application writes while Load(-1) is still reading the
			// persisted log back: what is listed at any moment of this session stays listed
			// (such a writer uses Lamport times again that its unloaded entries carry; the order
			// of two entries with the same writer and time depends on the order of arrival,
			// which is outside what C08 quantifies over: multi-writer merge histories, no
			// restarts. The order clauses are therefore not applied to this replica any more.)
			c.Down(node, false)
			prev[node], prevList[node] = nil, nil
			for j := range reusedClocks {
				reusedClocks[j] = true // the entries travel
			}
			if err := c.UpWithoutLoad(node); err != nil {
				k.Failf("C08/restart-error", "reopen of n%d failed: %v", node, err)
			}
			st := c.Stores[node]
			c.Peers[node].Inc.SetSlowLocal(true)
			lop := k.Go(node, "load -1", func() (interface{}, error) {
				ctx, cancel := OpCtx(10 * time.Minute)
				defer cancel()
				return nil, st.Load(WithOfflineReads(ctx), -1)
			})
			saved := k.F
			k.F = FaultCfg{Serve: 3, ServeAny: 1}
			k.Steps(k.C.Intn(5))
			for j, m := 0, k.C.Range(1, 2); j < m; j++ {
				val := c.NextVal(node)
				if _, err := c.Write(node, "add "+val, func(ctx context.Context) (operation.Operation, error) {
					return st.(iface.EventLogStore).Add(ctx, []byte(val))
				}); err != nil {
					k.Failf("C08/write-error", "Add during Load failed: %v", err)
				}
				k.Steps(k.C.Intn(3))
			}
			for j := 0; j < 400 && !k.IsDone(lop); j++ {
				k.Step()
			}
			k.F = saved
			c.Peers[node].Inc.SetSlowLocal(false)
			if !k.IsDone(lop) || lop.Err != nil {
				k.Failf("C08/restart-error", "Load(-1) after the restart of n%d: done=%v err=%v", node, k.IsDone(lop), lop.Err)
			}
			k.W.Stat("restart-with-writes-during-load")
			continue
		}
		el := c.Stores[node].(iface.EventLogStore)
		val := c.NextVal(node)
		if _, err := c.Write(node, "add "+val, func(ctx context.Context) (operation.Operation, error) { return el.Add(ctx, []byte(val)) }); err != nil {
			k.Failf("C08/write-error", "Add by authorised writer failed: %v", err)
		}
		k.Steps(k.C.Intn(6))
		if k.C.Chance(1, 3) {
			r := k.C.Intn(n)
			if w, m := c08Windows(k, c, r); w > 0 {
				windows += w
				multi = multi || m
			}
		}
	}
	k.Settle(90*time.Second, 3000, c.AllIdle)
	for r := 0; r < n; r++ {
		w, m := c08Windows(k, c, r)
		windows += w
		multi = multi || m
	}
	k.Notes["window_checks"] = windows
	k.Notes["writes"] = len(c.Writes)
	k.Notes["nontrivial"] = len(c.Writes) >= 3 && windows > 0 && multi
	c.CloseAll()
}

func (c *Cluster) names(hs []string) []string {
	out := make([]string, len(hs))
	for i, h := range hs {
		out[i] = c.nameOf(h)
	}
	return out
}

func isSubset(a, b []string) bool {
	in := map[string]bool{}
	for _, x := range b {
		in[x] = true
	}
	for _, x := range a {
		if !in[x] {
			return false
		}
	}
	return true
}

func isSubsequence(a, b []string) bool {
	j := 0
	for _, x := range a {
		for j < len(b) && b[j] != x {
			j++
		}
		if j == len(b) {
			return false
		}
		j++
	}
	return true
}

// modelWindow is the reference semantics of an event-log query over listing L (oldest first).
func modelWindow(L []string, kind string, pos int, amount *int) []string {
	n := 1
	if amount != nil {
		switch {
		case *amount == 0:
			n = 1
		case *amount < 0:
			n = len(L)
		default:
			n = *amount
		}
	}
	switch kind {
	case "gt", "gte":
		start := pos
		if kind == "gt" {
			start = pos + 1
		}
		end := start + n
		if end > len(L) {
			end = len(L)
		}
		if start > len(L) {
			start = len(L)
		}
		return L[start:end]
	default:
		end := len(L) // none: up to the end
		if kind == "lt" {
			end = pos
		} else if kind == "lte" {
			end = pos + 1
		}
		start := end - n
		if start < 0 {
			start = 0
		}
		return L[start:end]
	}
}

func c08Windows(k *K, c *Cluster, r int) (int, bool) {
	el := c.Stores[r].(iface.EventLogStore)
	L := LogHashSeq(el)
	if len(L) == 0 || len(L) > 14 {
		return 0, false
	}
	cids := make([]cid.Cid, len(L))
	writers := map[int]bool{}
	for i, h := range L {
		cids[i], _ = cid.Decode(h)
		if wr, ok := c.ByHash[h]; ok {
			writers[wr.Node] = true
		}
	}
	amounts := []*int{nil}
	for _, a := range []int{0, 1, 2, len(L) - 1, len(L), len(L) + 3, -1} {
		a := a
		amounts = append(amounts, &a)
	}
	checks := 0
	run := func(kind string, pos int, am *int) {
		opts := &iface.StreamOptions{Amount: am}
		switch kind {
		case "gt":
			opts.GT = &cids[pos]
		case "gte":
			opts.GTE = &cids[pos]
		case "lt":
			opts.LT = &cids[pos]
		case "lte":
			opts.LTE = &cids[pos]
		}
		ops, err := el.List(context.Background(), opts)
		if err != nil {
			k.Failf("C08/list-error", "List(%s) on n%d: %v", kind, r, err)
		}
		got := make([]string, len(ops))
		for i, o := range ops {
			got[i] = o.GetEntry().GetHash().String()
		}
		want := modelWindow(L, kind, pos, am)
		checks++
		if !EqStrs(got, want) {
			as := "unset"
			if am != nil {
				as = fmt.Sprint(*am)
			}
			k.Failf("C08/window/"+kind, "n%d query %s@%d amount=%s over a %d-entry listing returned positions %v, model says %v", r, kind, pos, as, len(L), positions(L, got), positions(L, want))
		}
	}
	// first of all the bound this replica was asked for last, once more (a listing that grew
	// by a merge since then has moved it), with no other lower bound in between
	if last, ok := c08Last[k][r]; ok {
		for pos, h := range L {
			if h == last {
				op, err := el.Get(context.Background(), cids[pos])
				if err != nil || op == nil || op.GetEntry().GetHash().String() != h {
					k.Failf("C08/get", "n%d Get(entry #%d), asked a second time after the listing had grown, returned %v err=%v", r, pos, op, err)
				}
				run("gte", pos, amounts[len(amounts)-1])
				run("gte", pos, amounts[3])
				k.W.Stat("same-bound-asked-again-after-listing-grew")
			}
		}
	}
	for _, am := range amounts {
		run("none", 0, am)
		for pos := range L {
			for _, kind := range []string{"gt", "gte", "lt", "lte"} {
				run(kind, pos, am)
			}
		}
	}
	for i, cc := range cids {
		op, err := el.Get(context.Background(), cc)
		if err != nil || op == nil || op.GetEntry().GetHash().String() != L[i] {
			k.Failf("C08/get", "n%d Get(entry #%d) returned %v err=%v", r, i, op, err)
		}
		checks++
	}
	if c08Last[k] == nil {
		c08Last[k] = map[int]string{}
		k.cleanups = append(k.cleanups, func() { delete(c08Last, k) })
	}
	// the last lower bound of this checkpoint: a gt bound on an entry of the middle (the Get
	// calls above went through the same path)
	mid := k.C.Intn(len(L))
	run("gt", mid, amounts[len(amounts)-1])
	c08Last[k][r] = L[mid]
	return checks, len(writers) >= 2 || len(L) >= 4
}

// c08Last: per run and replica, the entry used as the last lower bound of the last checkpoint
var c08Last = map[*K]map[int]string{}

func positions(L, sub []string) string {
	idx := map[string]int{}
	for i, h := range L {
		idx[h] = i
	}
	var out []string
	for _, h := range sub {
		if i, ok := idx[h]; ok {
			out = append(out, fmt.Sprint(i))
		} else {
			out = append(out, "?")
		}
	}
	return "[" + strings.Join(out, ",") + "]"
}
