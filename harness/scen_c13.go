package sim

import (
	"context"
	"encoding/binary"
	"encoding/json"
	"fmt"
	"github.com/ipfs/boxo/files"
	"github.com/ipfs/boxo/path"
	cid "github.com/ipfs/go-cid"
	"io"
	"strings"
	"time"

	"berty.tech/go-orbit-db/iface"
	"berty.tech/go-orbit-db/stores/basestore"
	"berty.tech/go-orbit-db/stores/operation"
)

func init() {
	Register(&Scenario{Prop: "C13", Name: "snapshot-roundtrip", Run: scenC13, SoftParks: true, Weight: 1,
		Rule: "node T (+0-2 feeders) with one event-log or key-value database; log shape drawn per run: empty, chain, fork/multi-writer via partial replication, containing replicated entries, or with replication in progress (announcement delivered, block fetches withheld); payload sizes drawn from {0,1,100,4 KiB,40 KiB,48 KiB-64 KiB around the 16-bit boundary,128 KiB,300 KiB}; SaveSnapshot on T (in a third of the runs while a second, small database of the same instance is being saved too), in a third of the runs an earlier snapshot is saved half-way through the history; in a quarter of the runs one cache write of the save fails with a disk error, the save is then repeated without fault; then clean close, reopen on the same directory, LoadFromSnapshot on the fresh store object; oracle: SaveSnapshot returns an error, or the reloaded store (after re-queued fetches come to rest) has the same entry set, heads and visible state; neither call may panic; non-trivial = log has >=2 entries or >=1 replicated entry or a payload >=40 KiB or replication in progress"})
}

var c13Sizes = []int{0, 1, 100, 4096, 40 * 1024, 48 * 1024, 49000, 49100, 49152, 50000, 64*1024 - 1, 64 * 1024, 64*1024 + 1, 128 * 1024, 300 * 1024}

func scenC13(k *K) {
	typ := []string{"eventlog", "keyvalue"}[k.C.Intn(2)]
	n := k.C.Range(1, 3)
	c := k.NewCluster(ClusterCfg{N: n, Type: typ})
	if k.C.Chance(1, 2) {
		k.F.Reorder, k.F.ServeAny = 3, 3
	}
	shape := k.C.Intn(5) // 0 empty, 1 chain, 2 multi-writer, 3 replicated, 4 in-progress
	if n == 1 && shape >= 2 {
		shape = 1
	}
	big := 0
	write := func(node int) {
		size := 10
		if k.C.Chance(1, 3) {
			size = c13Sizes[k.C.Intn(len(c13Sizes))]
		}
		if size >= 40*1024 {
			big++
		}
		tag := c.NextVal(node) + ":"
		val := tag + strings.Repeat("x", max(0, size-len(tag)))
		if size < len(tag) {
			val = val[:size]
		}
		name := fmt.Sprintf("write %s size=%d", tag, size)
		switch st := c.Stores[node].(type) {
		case iface.EventLogStore:
			if _, err := c.Write(node, name, func(ctx context.Context) (operation.Operation, error) { return st.Add(ctx, []byte(val)) }); err != nil {
				k.Failf("C13/write-error", "%v", err)
			}
		case iface.KeyValueStore:
			key := wlKeys[k.C.Intn(len(wlKeys))]
			if _, err := c.Write(node, name, func(ctx context.Context) (operation.Operation, error) { return st.Put(ctx, key, []byte(val)) }); err != nil {
				k.Failf("C13/write-error", "%v", err)
			}
		}
	}
	nw := 0
	if shape > 0 {
		nw = k.C.Range(1, 6)
	}
	earlier := k.C.Chance(1, 3)
	for i := 0; i < nw; i++ {
		node := 0
		if shape >= 2 && k.C.Chance(1, 2) {
			node = k.C.Intn(n)
		}
		write(node)
		k.Steps(k.C.Intn(8))
		if earlier && i == nw/2 {
			// an earlier snapshot of the same database, saved part-way through its history
			k.Do(0, "save-snapshot-earlier", 100, func() (interface{}, error) {
				ctx, cancel := OpCtx(2 * time.Minute)
				defer cancel()
				return basestore.SaveSnapshot(ctx, c.Stores[0])
			})
			k.W.Stat("earlier-snapshot-saved")
		}
	}
	if shape != 4 {
		k.Settle(60*time.Second, 2500, c.AllIdle)
	} else {
		// replication in progress: a feeder writes, the announcement reaches T, fetches are withheld
		k.Settle(60*time.Second, 2500, c.AllIdle)
		// (the announced head itself travels inside the message; its ancestors need fetching)
		k.W.HoldOnCut = false // announcements made behind the cut are lost; only the head exchange after the heal tells T
		k.Cut(0, 1)
		for j, m := 0, k.C.Range(2, 4); j < m; j++ {
			write(1)
		}
		// long enough for both pollers to observe the other side leaving
		saved := k.F
		k.F = FaultCfg{Refresh: 5, Tick: 1}
		k.Steps(8)
		k.Tick(2500 * time.Millisecond)
		k.Steps(8)
		k.Heal(0, 1)
		k.F = FaultCfg{Deliver: 5, Refresh: 2, Tick: 1}
		for j := 0; j < 150; j++ {
			k.Step()
			if rs, _ := ReplStats(c.Stores[0]); rs.Queued+rs.Added+rs.Fetching > 0 && k.C.Chance(1, 2) {
				break
			}
		}
		k.F = saved
		k.W.Stat("snapshot-with-replication-in-progress")
	}
	T := c.Stores[0]
	rs, _ := ReplStats(T)
	inProgress := rs.Queued+rs.Added+rs.Fetching > 0
	wantSet := SetKey(LogHashSet(T))
	wantHeads := fmt.Sprint(HeadHashes(T))
	wantState := VisibleState(T)
	entries := len(LogHashSet(T))
	repl := 0
	for _, e := range LogValues(T) {
		if e.GetIdentity().ID != T.Identity().ID {
			repl++
		}
	}
	// in a third of the runs a local write (and, with feeders, a replication) runs concurrently
	// with the save: the two goroutines are interleaved at the inserted yield points
	concurrent := k.C.Chance(1, 3)
	var cw *Op
	var cwMore []*Op
	if concurrent {
		k.W.Stat("save-concurrent-with-write")
		tag := c.NextVal(0) + ":concurrent"
		cw = k.Go(0, "write-during-save", func() (interface{}, error) {
			ctx, cancel := OpCtx(2 * time.Minute)
			defer cancel()
			return c09Write(ctx, T, tag)
		})
		// 0-2 more writers: the heads of the log move several times while the save reads them
		for j, m := 0, k.C.Intn(3); j < m; j++ {
			tag := c.NextVal(0) + ":concurrent"
			cwMore = append(cwMore, k.Go(0, "write-during-save", func() (interface{}, error) {
				ctx, cancel := OpCtx(2 * time.Minute)
				defer cancel()
				return c09Write(ctx, T, tag)
			}))
		}
	}
	// in a third of the runs a second, small database of the same instance is saved at the same
	// time: each snapshot must come back as its own database
	var side iface.Store
	var sideSet string
	var sideOp *Op
	if k.C.Chance(1, 3) {
		cop := k.Do(0, "create-side-db", 50, func() (interface{}, error) {
			ctx, cancel := OpCtx(time.Minute)
			defer cancel()
			return c.Peers[0].DB.Create(ctx, "side", "eventlog", nil)
		})
		if cop.Done && cop.Err == nil {
			side = cop.Val.(iface.Store)
			for j, m := 0, k.C.Range(1, 2); j < m; j++ {
				tag := fmt.Sprintf("side-%d", j)
				k.Do(0, "write-side", 20, func() (interface{}, error) {
					ctx, cancel := OpCtx(time.Minute)
					defer cancel()
					return c09Write(ctx, side, tag)
				})
			}
			sideSet = SetKey(LogHashSet(side))
			k.W.Stat("two-snapshots-saved-at-once")
			if k.C.Chance(1, 2) {
				sideOp = k.Go(0, "save-snapshot-side", func() (interface{}, error) {
					ctx, cancel := OpCtx(2 * time.Minute)
					defer cancel()
					return basestore.SaveSnapshot(ctx, side)
				})
			}
		}
	}
	// in a quarter of the runs one of the cache writes of the save fails (disk error): the save
	// must then report an error, or the snapshot must reload all the same
	if k.C.Chance(1, 4) {
		nth := k.C.Range(1, 2)
		nd := c.Peers[0].Node
		seenPuts := 0
		k.W.mu.Lock()
		k.W.DiskFault = func(on *Node, kind, space, key string) error {
			if on == nd && kind == "cache-put" {
				if seenPuts++; seenPuts == nth {
					return fmt.Errorf("sim: disk error on %s", key)
				}
			}
			return nil
		}
		k.W.mu.Unlock()
		k.cleanups = append(k.cleanups, func() { k.W.mu.Lock(); k.W.DiskFault = nil; k.W.mu.Unlock() })
		k.W.Stat("save-under-disk-error")
	}
	// in half of the runs with concurrent writers another goroutine writes and then saves a
	// snapshot itself, while the main save is under way: the snapshot that call gets back was
	// made after its write, so it holds at least what the log held when the call began
	type wsRes struct {
		c cid.Cid
		n int
	}
	var ws *Op
	if concurrent && k.C.Chance(1, 2) {
		tag := c.NextVal(0) + ":then-save"
		ws = k.Go(0, "write-then-save", func() (interface{}, error) {
			ctx, cancel := OpCtx(2 * time.Minute)
			defer cancel()
			if _, err := c09Write(ctx, T, tag); err != nil {
				return nil, err
			}
			n := T.OpLog().Len()
			sc, err := basestore.SaveSnapshot(ctx, T)
			if err != nil {
				return nil, err
			}
			return &wsRes{sc, n}, nil
		})
		k.W.Stat("second-save-behind-a-write")
	}
	mainSave := k.Go(0, "save-snapshot", func() (interface{}, error) {
		ctx, cancel := OpCtx(2 * time.Minute)
		defer cancel()
		return basestore.SaveSnapshot(ctx, T)
	})
	if side != nil && sideOp == nil {
		sideOp = k.Go(0, "save-snapshot-side", func() (interface{}, error) {
			ctx, cancel := OpCtx(2 * time.Minute)
			defer cancel()
			return basestore.SaveSnapshot(ctx, side)
		})
	}
	k.Wait()
	for j := 0; j < 100 && !(k.IsDone(mainSave) && (sideOp == nil || k.IsDone(sideOp))); j++ {
		k.Step()
	}
	k.W.mu.Lock()
	k.W.DiskFault = nil
	k.W.mu.Unlock()
	sop := mainSave
	sideAddr := ""
	if side != nil {
		sideAddr = side.Address().String()
		if !k.IsDone(sideOp) {
			k.Failf("C13/save-hang", "SaveSnapshot of the second database did not return")
		}
	}
	if cw != nil {
		for _, o := range append([]*Op{cw}, cwMore...) {
			for j := 0; j < 50 && !k.IsDone(o); j++ {
				k.Step()
			}
		}
	}
	if ws != nil {
		for j := 0; j < 100 && !k.IsDone(ws); j++ {
			k.Step()
		}
		if !k.IsDone(ws) {
			k.Failf("C13/save-hang", "SaveSnapshot called behind a write, while another save was under way, did not return")
		}
		if r, ok := ws.Val.(*wsRes); ok && ws.Err == nil {
			if sz, err := snapshotSize(c.Peers[0].Inc, r.c); err == nil && sz < r.n {
				k.Failf("C13/snapshot-older-than-call", "a SaveSnapshot call made when the log held %d entries (the caller had just written one) returned a snapshot of %d entries", r.n, sz)
			}
		}
	}
	afterSet := LogHashSet(T)
	if !sop.Done {
		k.Failf("C13/save-hang", "SaveSnapshot did not return")
	}
	k.Notes["entries"] = entries
	k.Notes["replicated"] = repl
	k.Notes["big_payloads"] = big
	k.Notes["in_progress"] = inProgress
	k.Notes["nontrivial"] = entries >= 2 || repl > 0 || big > 0 || inProgress
	if sop.Err != nil {
		k.W.Stat("save-refused")
		k.Notes["save_error"] = true
		// the application tries again, this time nothing fails
		sop = k.Do(0, "save-snapshot-again", 100, func() (interface{}, error) {
			ctx, cancel := OpCtx(2 * time.Minute)
			defer cancel()
			return basestore.SaveSnapshot(ctx, T)
		})
		if !sop.Done {
			k.Failf("C13/save-hang", "the second SaveSnapshot (after one that reported an error) did not return")
		}
		if sop.Err != nil {
			c.CloseAll()
			return
		}
		k.W.Stat("save-repeated-after-error")
		afterSet = LogHashSet(T)
	}
	// fresh store object of the same database on the same node
	c.Down(0, false)
	p, err := k.StartPeer(c.Peers[0].Node, c.PeerOpts...)
	if err != nil {
		panic(abortPanic{err.Error()})
	}
	c.Peers[0] = p
	oop := k.Do(0, "reopen", 200, func() (interface{}, error) {
		ctx, cancel := OpCtx(2 * time.Minute)
		defer cancel()
		return p.DB.Open(ctx, c.Addr, c.createOpts(0))
	})
	if !oop.Done || oop.Err != nil {
		k.Failf("C13/reopen-failed", "done=%v err=%v", oop.Done, oop.Err)
	}
	st := oop.Val.(iface.Store)
	c.Stores[0] = st
	lop := k.Do(0, "load-from-snapshot", 300, func() (interface{}, error) {
		ctx, cancel := OpCtx(5 * time.Minute)
		defer cancel()
		return nil, st.LoadFromSnapshot(ctx)
	})
	if !lop.Done {
		k.Failf("C13/load-hang", "LoadFromSnapshot did not return within 300 kernel steps; pending=%v", k.PendingDesc())
	}
	if lop.Err != nil {
		k.Failf("C13/silent-bad-snapshot", "SaveSnapshot returned success for a %d-entry log (%d big payloads, replication in progress: %v) but LoadFromSnapshot on a fresh store failed: %v", entries, big, inProgress, lop.Err)
	}
	if side != nil && sideOp.Err == nil {
		soop := k.Do(0, "reopen-side", 200, func() (interface{}, error) {
			ctx, cancel := OpCtx(2 * time.Minute)
			defer cancel()
			return p.DB.Open(ctx, sideAddr, nil)
		})
		if !soop.Done || soop.Err != nil {
			k.Failf("C13/reopen-failed", "second database: done=%v err=%v", soop.Done, soop.Err)
		}
		sst := soop.Val.(iface.Store)
		slop := k.Do(0, "load-from-snapshot-side", 300, func() (interface{}, error) {
			ctx, cancel := OpCtx(5 * time.Minute)
			defer cancel()
			return nil, sst.LoadFromSnapshot(ctx)
		})
		if !slop.Done {
			k.Failf("C13/load-hang", "LoadFromSnapshot of the second database did not return")
		}
		if slop.Err != nil {
			k.Failf("C13/silent-bad-snapshot", "two databases of one instance were saved at the same time, both saves returned success, but LoadFromSnapshot of the second one failed: %v", slop.Err)
		}
		if gs := SetKey(LogHashSet(sst)); gs != sideSet {
			k.Failf("C13/entries-differ", "two databases of one instance were saved at the same time: the second one reloads with %d entries %v, it was saved with %v", len(LogHashSet(sst)), LogNames(sst), sideSet)
		}
	}
	k.Settle(90*time.Second, 3000, c.AllIdle)
	got := LogHashSet(st)
	// the reloaded store may hold MORE than was saved only through the re-queued fetches
	for _, h := range strings.Split(wantSet, ",") {
		if h != "" && !got[h] {
			k.Failf("C13/entries-lost", "reloaded store lacks %s; saved %d entries, reloaded %d: %v", c.nameOf(h), entries, len(got), LogNames(st))
		}
	}
	if concurrent {
		// the snapshot shows the store either before or after the concurrent write
		for h := range got {
			if !afterSet[h] && !inProgress && n == 1 {
				k.Failf("C13/entries-differ", "reloaded store holds an entry the saved store never had")
			}
		}
		for _, e := range LogValues(st) {
			for _, nx := range e.GetNext() {
				if !got[nx.String()] && !inProgress && n == 1 {
					k.Failf("C13/reloaded-not-closed", "reloaded log holds %s without its predecessor", EntryName(e))
				}
			}
		}
	} else if !inProgress {
		if SetKey(got) != wantSet {
			k.Failf("C13/entries-differ", "reloaded store holds %d entries, saved one held %d", len(got), entries)
		}
		if hs := fmt.Sprint(HeadHashes(st)); hs != wantHeads {
			k.Failf("C13/heads-differ", "reloaded heads %v, saved heads %v", hs, wantHeads)
		}
		if vs := VisibleState(st); vs != wantState {
			k.Failf("C13/state-differs", "reloaded state %.300s, saved state %.300s", vs, wantState)
		}
	}
	c.CloseAll()
}

// snapshotSize reads the snapshot file at c back from the node's blocks and returns the entry
// count its header states.
func snapshotSize(inc *Inc, c cid.Cid) (int, error) {
	nd, err := inc.API().Unixfs().Get(context.Background(), path.FromCid(c))
	if err != nil {
		return 0, err
	}
	f, ok := nd.(files.File)
	if !ok {
		return 0, fmt.Errorf("not a file")
	}
	data, err := io.ReadAll(f)
	if err != nil || len(data) < 2 {
		return 0, fmt.Errorf("short snapshot: %v", err)
	}
	hl := int(binary.BigEndian.Uint16(data[:2]))
	if len(data) < 2+hl {
		return 0, fmt.Errorf("short header")
	}
	var h struct {
		Size int `json:"size"`
	}
	if err := json.Unmarshal(data[2:2+hl], &h); err != nil {
		return 0, err
	}
	return h.Size, nil
}
