package sim

import (
	"berty.tech/go-orbit-db/stores/operation"
	"context"

	"berty.tech/go-orbit-db/events"
	"fmt"
	"regexp"
	"runtime"
	"sort"
	"strings"
	"time"

	ipfslog "berty.tech/go-ipfs-log"
	orbitdb "berty.tech/go-orbit-db"
	"berty.tech/go-orbit-db/iface"
	"berty.tech/go-orbit-db/stores/basestore"
)

func init() {
	Register(&Scenario{Prop: "C18", Name: "close-drop", Run: scenC18, SoftParks: true, Weight: 4,
		Rule: "instance P with 1-3 databases and a feeder peer Q; 2-8 writes and replications; then Close of one store, Close of the instance, or Drop of one store at a moment drawn per run: idle, while a writer is parked at one of the three write-path hooks, while block fetches of a replication are pending, while a fetched batch is parked before being joined (load-end hook), while a head exchange waits on the pairwise channel for a peer that subscribed to the database topics only (the closed store must take its share of those waiting goroutines with it), or while Load(-1) runs (local block reads take kernel steps then; 0-6 of them are served before the action); Close is repeated 1-3 times; afterwards every public operation is invoked once on the closed object and must return within 30 virtual seconds without panic; 15 virtual seconds later the per-creator counts of goroutines created in go-orbit-db / go-ipfs-log packages must be back to the counts taken before the closed object was opened; after Close, reopen + Load(-1) must recover every acknowledged entry; after Drop the database reopens empty and the sibling databases' contents and cache keys are unchanged; non-trivial = the close happened at a non-idle moment or the object had replicated entries, and all post-close operations were exercised"})
}

var goroutineHdr = regexp.MustCompile(`(?m)^created by ((?:berty\.tech/go-orbit-db|berty\.tech/go-ipfs-log)[^\s]*) in goroutine`)

func sutGoroutines() map[string]int {
	buf := make([]byte, 1<<22)
	n := runtime.Stack(buf, true)
	out := map[string]int{}
	for _, m := range goroutineHdr.FindAllStringSubmatch(string(buf[:n]), -1) {
		out[m[1]]++
	}
	return out
}

func goroutineDelta(before, after map[string]int) map[string]int {
	d := map[string]int{}
	for k, v := range after {
		if v > before[k] {
			d[k] = v - before[k]
		}
	}
	return d
}

func goroutineExcess(before, after map[string]int) []string {
	var ex []string
	for k, v := range after {
		if v > before[k] {
			ex = append(ex, fmt.Sprintf("%s: %d -> %d", k, before[k], v))
		}
	}
	sort.Strings(ex)
	return ex
}

func scenC18(k *K) {
	pn := k.W.AddNode()
	Q, err := k.StartPeer(k.W.AddNode())
	if err != nil {
		panic(abortPanic{err.Error()})
	}
	k.Wait()
	s0 := sutGoroutines()
	P, err := k.StartPeer(pn)
	if err != nil {
		panic(abortPanic{err.Error()})
	}
	ids := []string{P.DB.Identity().ID, Q.DB.Identity().ID}
	ndb := k.C.Range(1, 3)
	types := []string{"keyvalue", "eventlog", "docstore"}
	action := k.C.Intn(3) // 0 close store, 1 close instance, 2 drop store
	moment := k.C.Intn(6) // 0 idle, 1 mid-write, 2 mid-replication (wants pending), 3 load-end parked, 4 mid-load, 5 head exchange waiting for a peer
	target := k.C.Intn(ndb)
	// goroutine baseline for instance-level close is taken before anything of P's was opened:
	// P itself is already running, so for action 1 the comparison is against "P freshly started"
	type dbrec struct {
		addr  string
		typ   string
		p, q  iface.Store
		acked map[string]bool
	}
	var dbs []*dbrec
	var beforeOpen, deltaStore map[string]int
	for d := 0; d < ndb; d++ {
		if d == target {
			k.Wait()
			beforeOpen = sutGoroutines()
		}
		typ := types[k.C.Intn(3)]
		op := k.Do(0, "create", 50, func() (interface{}, error) {
			ctx, cancel := OpCtx(time.Minute)
			defer cancel()
			return P.DB.Create(ctx, fmt.Sprintf("db%d", d), typ, &orbitdb.CreateDBOptions{AccessController: WriteACL(ids...)})
		})
		if !op.Done || op.Err != nil {
			panic(abortPanic{fmt.Sprint(op.Err)})
		}
		r := &dbrec{typ: typ, p: op.Val.(iface.Store), acked: map[string]bool{}}
		r.addr = r.p.Address().String()
		dbs = append(dbs, r)
		if d == target {
			k.Wait()
			deltaStore = goroutineDelta(beforeOpen, sutGoroutines())
		}
	}
	k.Wait()
	deltaInstance := goroutineDelta(s0, sutGoroutines())
	for _, r := range dbs {
		r := r
		op := k.Do(1, "open", 400, func() (interface{}, error) {
			ctx, cancel := OpCtx(10 * time.Minute)
			defer cancel()
			return Q.DB.Open(ctx, r.addr, nil)
		})
		if !op.Done || op.Err != nil {
			panic(abortPanic{fmt.Sprint(op.Err)})
		}
		r.q = op.Val.(iface.Store)
	}
	if k.C.Chance(1, 2) {
		k.F.Reorder, k.F.ServeAny = 2, 2
	}
	wseq := 0
	write := func(st iface.Store, node int, r *dbrec) {
		wseq++
		val := fmt.Sprintf("w%d.%d", node, wseq)
		op := k.Do(node, "write "+val, 20, func() (interface{}, error) {
			ctx, cancel := OpCtx(time.Minute)
			defer cancel()
			return c09Write(ctx, st, val)
		})
		if op.Done && op.Err == nil && node == 0 {
			for _, e := range LogValues(st) {
				if strings.Contains(string(e.GetPayload()), encodeVal(val)) || strings.Contains(string(e.GetPayload()), val) {
					r.acked[e.GetHash().String()] = true
				}
			}
		}
	}
	nw := k.C.Range(2, 8)
	for i := 0; i < nw; i++ {
		r := dbs[k.C.Intn(ndb)]
		if k.C.Chance(1, 2) {
			write(r.p, 0, r)
		} else {
			write(r.q, 1, r)
		}
		k.Steps(k.C.Intn(8))
	}
	k.Settle(60*time.Second, 2500, nil)
	T := dbs[target]
	// everything P's target store holds now is durable (acked locally or replicated batches persisted)
	for _, e := range LogValues(T.p) {
		T.acked[e.GetHash().String()] = true
	}
	replicated := 0
	for _, e := range LogValues(T.p) {
		if e.GetIdentity().ID != ids[0] {
			replicated++
		}
	}
	siblingsBefore := map[string]string{}
	snapSiblings := func() map[string]string {
		out := map[string]string{}
		for i, r := range dbs {
			if i == target {
				continue
			}
			sp := spaceForAddress(P.Node.Disk, r.addr)
			var keys []string
			for _, ck := range P.Node.Disk.CacheKeys(sp) {
				v, _ := P.Node.Disk.CacheGet(sp, ck)
				keys = append(keys, fmt.Sprintf("%s=%x", ck, v))
			}
			out[r.addr] = fmt.Sprintf("log=%v state=%s cache=%v", LogHashSeq(r.p), VisibleState(r.p), keys)
		}
		return out
	}
	// ---- bring the target to the chosen moment ----
	var inflight []*Op
	momentName := []string{"idle", "mid-write", "mid-replication", "load-end-parked", "mid-load", "exchange-waiting"}[moment]
	var waiters map[string]int // goroutines (by creator) that every open store of P started when the silent peer appeared
	switch moment {
	case 1:
		point := []string{"store.after-append", "store.after-head-persisted", "store.after-index"}[k.C.Intn(3)]
		momentName += "@" + point
		k.InstallHooks(func(pt string, owner interface{}) bool { return pt == point && OwnerStoreID(owner) == T.addr })
		st := T.p
		inflight = append(inflight, k.Go(0, "parked-write", func() (interface{}, error) {
			ctx, cancel := OpCtx(time.Minute)
			defer cancel()
			return c09Write(ctx, st, "parked")
		}))
		k.Wait()
		if k.C.Chance(1, 2) {
			// a second writer gets to the same point behind the first; one of the two is let
			// go and acknowledged while the other still sits there when the action comes
			momentName += "+writer"
			second := k.Go(0, "parked-write-2", func() (interface{}, error) {
				ctx, cancel := OpCtx(time.Minute)
				defer cancel()
				return c09Write(ctx, st, "parked2")
			})
			k.Wait()
			if ps := k.Parks(); len(ps) == 2 {
				which := k.C.Intn(2)
				k.ReleasePark(ps[which])
				k.Wait()
				free := []*Op{inflight[0], second}[which]
				for j := 0; j < 30 && !k.IsDone(free); j++ {
					k.Step()
				}
				if k.IsDone(free) && free.Err == nil {
					if o, ok := free.Val.(operation.Operation); ok && o != nil {
						T.acked[o.GetEntry().GetHash().String()] = true
						k.W.Stat("close-with-writer-acked-beside-parked-writer")
					}
				}
			}
			inflight = append(inflight, second)
		}
	case 2, 3:
		if moment == 3 {
			k.InstallHooks(func(pt string, owner interface{}) bool {
				return pt == "store.load-end" && OwnerStoreID(owner) == T.addr
			})
		}
		k.Cut(0, 1)
		k.W.HoldOnCut = false
		for j, m := 0, k.C.Range(2, 4); j < m; j++ {
			write(T.q, 1, T)
		}
		saved := k.F
		k.F = FaultCfg{Refresh: 5, Tick: 1}
		k.Steps(8)
		k.Tick(2500 * time.Millisecond)
		k.Steps(8)
		k.Heal(0, 1)
		k.F = FaultCfg{Deliver: 5, Refresh: 3, Tick: 1}
		if moment == 3 {
			k.F.Serve = 5
		}
		reached := false
		for j := 0; j < 200 && !reached; j++ {
			k.Step()
			if moment == 2 {
				rs, _ := ReplStats(T.p)
				reached = rs.Fetching > 0
			} else {
				reached = len(k.Parks()) > 0
			}
		}
		k.F = saved
		if !reached {
			momentName += "(not reached)"
			moment = 0
		}
	case 4:
		st := T.p
		// local block reads take kernel steps from here on, so that the load really is under
		// way (0-6 of its reads served) when the action comes
		P.Inc.SetSlowLocal(true)
		inflight = append(inflight, k.Go(0, "load-during-close", func() (interface{}, error) {
			ctx, cancel := OpCtx(time.Minute)
			defer cancel()
			return nil, st.Load(ctx, -1)
		}))
		k.Wait()
		saved := k.F
		k.F = FaultCfg{Serve: 3, ServeAny: 1}
		for j, m := 0, k.C.Intn(7); j < m; j++ {
			if en, _ := k.PendingCount(); en == 0 {
				break
			}
			k.Step()
		}
		k.F = saved
		if en, _ := k.PendingCount(); en > 0 {
			momentName += "(reads pending)"
		}
	}
	for a, v := range snapSiblings() {
		siblingsBefore[a] = v
	}
	if moment != 5 {
		k.W.Stat("close-moment:" + momentName)
	}
	// the feeder leaves before the count is taken: whatever it would do in reaction to P's
	// closing (waiting for P on the pair channel, ...) is its own business, not a leak of P's
	qop := k.StopPeer(Q)
	k.Wait()
	for j := 0; j < 60 && !k.IsDone(qop); j++ {
		k.Wait()
		kernelSleep(time.Second)
	}
	k.W.Detach(Q.Inc)
	k.Wait()
	if moment == 5 {
		// a peer that subscribes to the database topics and never to the pairwise channel:
		// every store of P starts a head exchange with it and waits for it on the channel
		k.Wait()
		beforeZ := sutGoroutines()
		z := k.NewAdversary()
		for _, r := range dbs {
			z.JoinTopic(r.addr)
		}
		saved := k.F
		k.F = FaultCfg{Refresh: 5, Deliver: 3, Tick: 1}
		seen := false
		for j := 0; j < 300 && !seen; j++ {
			k.Step()
			seen = true
			k.W.mu.Lock()
			for _, r := range dbs {
				if !P.Inc.view[r.addr][z.Node.Idx] {
					seen = false
				}
			}
			k.W.mu.Unlock()
		}
		k.Tick(2500 * time.Millisecond)
		k.Steps(10)
		k.F = saved
		k.Wait()
		if seen {
			waiters = goroutineDelta(beforeZ, sutGoroutines())
		} else {
			momentName += "(not reached)"
			moment = 0
		}
		k.W.Stat("close-moment:" + momentName)
	}
	// closing the instance: in a third of the runs with several databases the cache of one
	// of them reports an I/O error when it is closed (and is released all the same)
	if action == 1 && ndb > 1 && k.C.Chance(1, 3) {
		victim := spaceForAddress(P.Node.Disk, dbs[k.C.Intn(ndb)].addr)
		nd := P.Node
		k.W.mu.Lock()
		k.W.DiskFault = func(on *Node, kind, space, key string) error {
			if on == nd && kind == "cache-close" && space == victim {
				return fmt.Errorf("sim: i/o error on close")
			}
			return nil
		}
		k.W.mu.Unlock()
		k.cleanups = append(k.cleanups, func() { k.W.mu.Lock(); k.W.DiskFault = nil; k.W.mu.Unlock() })
		k.W.Stat("cache-close-error-on-one-database")
	}
	k.Wait()
	atClose := sutGoroutines()
	// ---- the action, repeated ----
	actName := []string{"close-store", "close-instance", "drop-store"}[action]
	k.W.Stat("close-action:" + actName)
	reps := k.C.Range(1, 3)
	for r := 0; r < reps; r++ {
		var op *Op
		switch action {
		case 0:
			op = k.Go(0, "close-store", func() (interface{}, error) { return nil, T.p.Close() })
		case 1:
			op = k.Go(0, "close-instance", func() (interface{}, error) { return nil, P.DB.Close() })
		case 2:
			op = k.Go(0, "drop-store", func() (interface{}, error) { return nil, T.p.Drop() })
		}
		// parked goroutines are released only after the first close call has been issued: in half
		// the runs once the call has come to rest (returned, or waiting for something), in the
		// other half at once, so that the call and the released goroutines run side by side
		// from their first statements on (seeded preemptions decide who gets how far)
		together := r == 0 && len(k.Parks()) > 0 && k.C.Chance(1, 2)
		if together {
			k.W.Stat("close-call-and-parked-goroutines-released-together")
			k.ReleaseAllParks()
			UninstallHooks()
		}
		k.Wait()
		if r == 0 && !together {
			k.ReleaseAllParks()
			UninstallHooks()
		}
		for j := 0; j < 120 && !k.IsDone(op); j++ {
			k.Step()
		}
		if !k.IsDone(op) {
			k.Tick(35 * time.Second)
		}
		if !k.IsDone(op) {
			k.Failf("C18/close-hang/"+actName, "%s #%d at moment %s did not return within 30 virtual seconds; pending=%v", actName, r+1, momentName, k.PendingDesc())
		}
		if op.Err != nil && r == 0 && action != 2 {
			k.Failf("C18/close-error/"+actName, "%s at moment %s returned %v", actName, momentName, op.Err)
		}
	}
	for _, op := range inflight {
		for j := 0; j < 60 && !k.IsDone(op); j++ {
			k.Step()
		}
		if !k.IsDone(op) {
			k.Tick(65 * time.Second)
		}
		if !k.IsDone(op) {
			k.Failf("C18/inflight-hang", "operation %q in flight when %s was called never returned (65 virtual seconds later)", op.Name, actName)
		}
	}
	P.Inc.SetSlowLocal(false)
	// ---- every public operation once on the closed object ----
	post := map[string]func(ctx context.Context) error{}
	st := T.p
	var postWriteAcked []string
	post["write"] = func(ctx context.Context) error {
		op, err := c09Write(ctx, st, "after-close")
		if err == nil && op != nil {
			postWriteAcked = append(postWriteAcked, op.GetEntry().GetHash().String())
		}
		return err
	}
	post["load"] = func(ctx context.Context) error { return st.Load(ctx, -1) }
	post["load-from-snapshot"] = func(ctx context.Context) error { return st.LoadFromSnapshot(ctx) }
	qHeads := CopyHeads(T.q.OpLog().Heads().Slice())
	post["sync"] = func(ctx context.Context) error { return st.Sync(ctx, qHeads) }
	post["sync-empty"] = func(ctx context.Context) error { return st.Sync(ctx, []ipfslog.Entry{}) }
	post["reads"] = func(ctx context.Context) error {
		_ = VisibleState(st)
		_ = st.OpLog().Len()
		_ = st.ReplicationStatus().GetProgress()
		_ = st.Address().String()
		_, _ = st.AccessController().GetAuthorizedByRole("write")
		return nil
	}
	post["save-snapshot"] = func(ctx context.Context) error { _, err := basestore.SaveSnapshot(ctx, st); return err }
	post["close-again"] = func(ctx context.Context) error { return st.Close() }
	if action == 1 {
		post["instance-create"] = func(ctx context.Context) error {
			_, err := P.DB.Create(ctx, "after-close", "keyvalue", nil)
			return err
		}
		post["instance-open"] = func(ctx context.Context) error { _, err := P.DB.Open(ctx, T.addr, nil); return err }
		post["instance-determine"] = func(ctx context.Context) error {
			_, err := P.DB.DetermineAddress(ctx, "x", "keyvalue", nil)
			return err
		}
		post["instance-close-again"] = func(ctx context.Context) error { return P.DB.Close() }
	}
	var names []string
	for n := range post {
		names = append(names, n)
	}
	sort.Strings(names)
	for _, i := range k.C.Perm(len(names)) {
		name := names[i]
		f := post[name]
		op := k.Go(0, "post-"+name, func() (interface{}, error) {
			ctx, cancel := OpCtx(25 * time.Second)
			defer cancel()
			return nil, f(ctx)
		})
		k.Wait()
		for j := 0; j < 40 && !k.IsDone(op); j++ {
			k.Step()
		}
		if !k.IsDone(op) {
			k.Tick(31 * time.Second)
		}
		if !k.IsDone(op) {
			k.Failf("C18/post-close-hang/"+name, "%s on the object closed by %s (moment %s) did not return within 30 virtual seconds", name, actName, momentName)
		}
		k.W.Stat("post-close-op")
	}
	// stores that post-close instance ops may have opened are closed again
	if action == 1 {
		k.Do(0, "instance-close-final", 50, func() (interface{}, error) { return nil, P.DB.Close() })
	}
	// ---- goroutine leak ----
	k.Settle(20*time.Second, 400, nil)
	k.Tick(15 * time.Second)
	k.Wait()
	after := sutGoroutines()
	delta := deltaStore
	if action == 1 {
		delta = deltaInstance
	}
	var ex []string
	// every open store started the same goroutines when the silent peer appeared: the closed
	// store must take its share of them with it (closing the instance: all of them)
	for c, n := range waiters {
		share := 0
		if action == 1 {
			share = n
		} else if n%ndb == 0 {
			share = n / ndb
		}
		if share > 0 && after[c] > max(0, atClose[c]-delta[c]-share) {
			ex = append(ex, fmt.Sprintf("%s: %d started by P's %d stores when a peer appeared that never joins the pairwise channel, %d at close, %d remain", c, n, ndb, atClose[c], after[c]))
		}
	}
	for c, v := range after {
		if allowed := atClose[c] - delta[c]; v > allowed {
			ex = append(ex, fmt.Sprintf("%s: %d at close, %d started when the object was opened, %d remain", c, atClose[c], delta[c], v))
		}
	}
	sort.Strings(ex)
	if len(ex) > 0 {
		var creators []string
		for c, v := range after {
			if v > atClose[c]-delta[c] {
				creators = append(creators, c)
			}
		}
		k.Failf("C18/goroutine-leak/"+actName, "15 virtual seconds after %s (moment %s) goroutines created in go-orbit-db packages did not go back by what opening the object had started: %v\n%s", actName, momentName, ex, stacksCreatedBy(creators))
	}
	if action == 1 {
		if left := inBubbleSUTGoroutines(); len(left) > 0 {
			k.Failf("C18/goroutine-leak/close-instance-nonzero", "15 virtual seconds after closing the only running instance (moment %s) %d goroutine(s) created in go-orbit-db packages are still alive:\n%s", momentName, len(left), strings.Join(left[:min(3, len(left))], "\n\n"))
		}
	}
	// ---- siblings untouched ----
	if action != 1 {
		for a, v := range snapSiblings() {
			if siblingsBefore[a] != v {
				k.Failf("C18/sibling-changed/"+actName, "%s of %s changed the sibling database %s:\n before: %.400s\n after:  %.400s", actName, short(T.addr), short(a), siblingsBefore[a], v)
			}
		}
	}
	// ---- reopen ----
	var inst orbitdb.OrbitDB = P.DB
	if action == 1 {
		k.W.Detach(P.Inc)
		np, err := k.StartPeer(P.Node)
		if err != nil {
			k.Failf("C18/reopen-instance-failed", "NewOrbitDB on the closed instance's directory failed: %v", err)
		}
		np.Inc.SetOffline(true)
		inst = np.DB
	} else {
		P.Inc.SetOffline(true)
	}
	rop := k.Do(0, "reopen", 200, func() (interface{}, error) {
		ctx, cancel := OpCtx(2 * time.Minute)
		defer cancel()
		return inst.Open(ctx, T.addr, nil)
	})
	if !rop.Done || rop.Err != nil {
		k.Failf("C18/reopen-failed/"+actName, "reopening %s after %s failed: done=%v err=%v", short(T.addr), actName, rop.Done, rop.Err)
	}
	rst := rop.Val.(iface.Store)
	lop := k.Do(0, "reload", 200, func() (interface{}, error) {
		ctx, cancel := OpCtx(2 * time.Minute)
		defer cancel()
		return nil, rst.Load(ctx, -1)
	})
	if !lop.Done || lop.Err != nil {
		k.Failf("C18/reload-failed/"+actName, "Load(-1) after %s failed: done=%v err=%v", actName, lop.Done, lop.Err)
	}
	have := LogHashSet(rst)
	if action == 2 {
		if len(have) != 0 {
			k.Failf("C18/drop-left-data", "after Drop the database reopened with %d entries: %v", len(have), LogNames(rst))
		}
	} else {
		for _, h := range postWriteAcked {
			if !have[h] {
				k.Failf("C18/acked-after-close-lost/"+actName, "a write on the closed store returned success but its entry is gone after reopen + Load(-1)")
			}
		}
		for h := range T.acked {
			if !have[h] {
				k.Failf("C18/acked-lost/"+actName, "after %s at moment %s, reopen + Load(-1) lacks an acknowledged entry; have %d of %d", actName, momentName, len(have), len(T.acked))
			}
		}
	}
	k.Notes["replicated"] = replicated
	k.Notes["post_ops"] = len(names)
	k.Notes["nontrivial"] = moment != 0 || replicated > 0
	k.Do(0, "final-close", 50, func() (interface{}, error) { return nil, inst.Close() })
}

func encodeVal(v string) string { return v }

func stacksCreatedBy(creators []string) string {
	buf := make([]byte, 1<<22)
	n := runtime.Stack(buf, true)
	var out []string
	for _, blk := range strings.Split(string(buf[:n]), "\n\n") {
		for _, c := range creators {
			if strings.Contains(blk, "created by "+c+" ") {
				out = append(out, blk)
				break
			}
		}
	}
	if len(out) > 4 {
		out = out[:4]
	}
	return strings.Join(out, "\n\n")
}

var bubbleRe = regexp.MustCompile(`synctest bubble (\d+)`)

// inBubbleSUTGoroutines returns the stacks of goroutines of the current bubble that were
// created inside go-orbit-db / go-ipfs-log packages.
func inBubbleSUTGoroutines() []string {
	buf := make([]byte, 1<<22)
	n := runtime.Stack(buf, true)
	blocks := strings.Split(string(buf[:n]), "\n\n")
	me := ""
	if m := bubbleRe.FindStringSubmatch(blocks[0]); m != nil {
		me = m[1]
	}
	var out []string
	for _, blk := range blocks[1:] {
		m := bubbleRe.FindStringSubmatch(blk)
		if m == nil || m[1] != me {
			continue
		}
		if goroutineHdr.MatchString(blk) {
			out = append(out, blk)
		}
	}
	return out
}

func init() {
	Register(&Scenario{Prop: "C18", Name: "reopen-while-closing", Run: scenC18Reopen, Weight: 1,
		Rule: "instance P with one database and a feeder Q; replication into P is stopped with a fetched batch parked before being joined (load-end hook), i.e. the store's main loop is busy; then Close of the store (must return within 30 virtual s), Open of the same address on the same instance while the old main loop is still parked, release of the old loop, a write on the reopened store (must succeed), then Close of the instance; oracle: 15 virtual seconds later no goroutine created in go-orbit-db packages is left in the bubble (the reopened store was closed with its instance), and a fresh instance on the same directory recovers the acknowledged write; non-trivial = the old main loop was parked when the store was reopened"})
}

func scenC18Reopen(k *K) {
	pn := k.W.AddNode()
	Q, err := k.StartPeer(k.W.AddNode())
	if err != nil {
		panic(abortPanic{err.Error()})
	}
	P, err := k.StartPeer(pn)
	if err != nil {
		panic(abortPanic{err.Error()})
	}
	ids := []string{P.DB.Identity().ID, Q.DB.Identity().ID}
	typ := []string{"keyvalue", "eventlog", "docstore"}[k.C.Intn(3)]
	op := k.Do(0, "create", 50, func() (interface{}, error) {
		ctx, cancel := OpCtx(time.Minute)
		defer cancel()
		return P.DB.Create(ctx, "db", typ, &orbitdb.CreateDBOptions{AccessController: WriteACL(ids...)})
	})
	if !op.Done || op.Err != nil {
		panic(abortPanic{fmt.Sprint(op.Err)})
	}
	p1 := op.Val.(iface.Store)
	addr := p1.Address().String()
	oq := k.Do(1, "open", 400, func() (interface{}, error) {
		ctx, cancel := OpCtx(10 * time.Minute)
		defer cancel()
		return Q.DB.Open(ctx, addr, nil)
	})
	if !oq.Done || oq.Err != nil {
		panic(abortPanic{fmt.Sprint(oq.Err)})
	}
	q := oq.Val.(iface.Store)
	k.Settle(30*time.Second, 1000, nil)
	// park P's main loop with a fetched batch in hand
	k.InstallHooks(func(pt string, owner interface{}) bool { return pt == "store.load-end" && OwnerStoreID(owner) == addr })
	for j, m := 0, k.C.Range(1, 3); j < m; j++ {
		val := fmt.Sprintf("q%d", j)
		k.Do(1, "write "+val, 20, func() (interface{}, error) {
			ctx, cancel := OpCtx(time.Minute)
			defer cancel()
			return c09Write(ctx, q, val)
		})
	}
	parked := false
	for j := 0; j < 300 && !parked; j++ {
		k.Step()
		parked = len(k.Parks()) > 0
	}
	cop := k.Go(0, "close-store", func() (interface{}, error) { return nil, p1.Close() })
	k.Wait()
	for j := 0; j < 60 && !k.IsDone(cop); j++ {
		k.Step()
	}
	if !k.IsDone(cop) {
		k.Tick(35 * time.Second)
	}
	if !k.IsDone(cop) {
		k.Failf("C18/close-hang/close-store", "Close of a store whose main loop is busy (a fetched batch is being handled) did not return within 30 virtual seconds")
	}
	stillParked := len(k.Parks()) > 0
	rop := k.Do(0, "reopen", 300, func() (interface{}, error) {
		ctx, cancel := OpCtx(5 * time.Minute)
		defer cancel()
		return P.DB.Open(ctx, addr, nil)
	})
	if !rop.Done || rop.Err != nil {
		k.Failf("C18/reopen-failed/close-store", "reopening %s on the same instance right after Close failed: done=%v err=%v", short(addr), rop.Done, rop.Err)
	}
	p2 := rop.Val.(iface.Store)
	// the old main loop goes on now
	UninstallHooks()
	k.ReleaseAllParks()
	k.Settle(30*time.Second, 1000, nil)
	wop := k.Do(0, "write-on-reopened", 30, func() (interface{}, error) {
		ctx, cancel := OpCtx(time.Minute)
		defer cancel()
		return c09Write(ctx, p2, "after-reopen")
	})
	if !wop.Done || wop.Err != nil {
		k.Failf("C18/reopened-unusable", "a write on the store reopened while the closed one's main loop was still busy failed: done=%v err=%v", wop.Done, wop.Err)
	}
	acked := wop.Val.(operation.Operation).GetEntry().GetHash().String()
	k.Settle(30*time.Second, 1000, nil)
	// the feeder leaves first (what it does in reaction to P's closing is its own business)
	qop := k.StopPeer(Q)
	k.Wait()
	for j := 0; j < 60 && !k.IsDone(qop); j++ {
		k.Wait()
		kernelSleep(time.Second)
	}
	k.W.Detach(Q.Inc)
	iop := k.StopPeer(P)
	k.Wait()
	for j := 0; j < 120 && !k.IsDone(iop); j++ {
		k.Step()
	}
	if !k.IsDone(iop) {
		k.Tick(35 * time.Second)
	}
	if !k.IsDone(iop) {
		k.Failf("C18/close-hang/close-instance", "closing the instance after a store had been reopened on it did not return within 30 virtual seconds")
	}
	k.Settle(20*time.Second, 400, nil)
	k.Tick(15 * time.Second)
	k.Wait()
	if left := inBubbleSUTGoroutines(); len(left) > 0 {
		k.Failf("C18/goroutine-leak/close-instance-nonzero", "15 virtual seconds after closing the instance (a store had been closed and reopened on it while the closed one's main loop was still busy: %v) %d goroutine(s) created in go-orbit-db packages are still alive:\n%s", stillParked, len(left), strings.Join(left[:min(3, len(left))], "\n\n"))
	}
	// the acknowledged write is on disk
	k.W.Detach(P.Inc)
	np, err := k.StartPeer(P.Node)
	if err != nil {
		k.Failf("C18/reopen-instance-failed", "NewOrbitDB on the closed instance's directory failed: %v", err)
	}
	np.Inc.SetOffline(true)
	fop := k.Do(0, "reopen-fresh", 200, func() (interface{}, error) {
		ctx, cancel := OpCtx(2 * time.Minute)
		defer cancel()
		return np.DB.Open(ctx, addr, nil)
	})
	if !fop.Done || fop.Err != nil {
		k.Failf("C18/reopen-failed/close-instance", "done=%v err=%v", fop.Done, fop.Err)
	}
	fs := fop.Val.(iface.Store)
	k.Do(0, "load", 200, func() (interface{}, error) {
		ctx, cancel := OpCtx(2 * time.Minute)
		defer cancel()
		return nil, fs.Load(ctx, -1)
	})
	if !LogHashSet(fs)[acked] {
		k.Failf("C18/acked-after-reopen-lost", "the write acknowledged by the reopened store is not on disk after the instance was closed: %v", LogNames(fs))
	}
	k.Notes["nontrivial"] = parked && stillParked
	k.StopPeer(np)
}

func init() {
	Register(&Scenario{Prop: "C18", Name: "close-sibling-during-exchange", Run: scenC18Sibling, SoftParks: true, Weight: 1,
		Rule: "instances X and P share 2-3 databases; the link is cut until both sides have seen it, both write 1-3 entries into every database, the link heals; 0-60 kernel steps into the head exchanges that follow (joins observed, pairwise channel being set up, heads under way) X closes one of its databases (sometimes P closes one too); no further fault; oracle: within 120 virtual seconds the world is at rest and, for every database still open on both, each side holds every acknowledged write of the other: closing a database is scoped to that database; non-trivial = the closed store had taken part in an exchange with the other peer before it was closed"})
}

func scenC18Sibling(k *K) {
	X, err := k.StartPeer(k.W.AddNode())
	if err != nil {
		panic(abortPanic{err.Error()})
	}
	P, err := k.StartPeer(k.W.AddNode())
	if err != nil {
		panic(abortPanic{err.Error()})
	}
	peers := []*Peer{X, P}
	ids := []string{X.DB.Identity().ID, P.DB.Identity().ID}
	ndb := k.C.Range(2, 3)
	types := []string{"keyvalue", "eventlog", "docstore"}
	type rec struct {
		addr   string
		st     [2]iface.Store
		acked  [2][]string
		closed [2]bool
	}
	var dbs []*rec
	for d := 0; d < ndb; d++ {
		typ := types[k.C.Intn(3)]
		op := k.Do(0, "create", 50, func() (interface{}, error) {
			ctx, cancel := OpCtx(time.Minute)
			defer cancel()
			return X.DB.Create(ctx, fmt.Sprintf("db%d", d), typ, &orbitdb.CreateDBOptions{AccessController: WriteACL(ids...)})
		})
		if !op.Done || op.Err != nil {
			panic(abortPanic{fmt.Sprint(op.Err)})
		}
		r := &rec{}
		r.st[0] = op.Val.(iface.Store)
		r.addr = r.st[0].Address().String()
		dbs = append(dbs, r)
	}
	for _, r := range dbs {
		r := r
		op := k.Do(1, "open", 400, func() (interface{}, error) {
			ctx, cancel := OpCtx(10 * time.Minute)
			defer cancel()
			return P.DB.Open(ctx, r.addr, nil)
		})
		if !op.Done || op.Err != nil {
			panic(abortPanic{fmt.Sprint(op.Err)})
		}
		r.st[1] = op.Val.(iface.Store)
	}
	k.Settle(30*time.Second, 1500, nil)
	// ---- cut, seen by both; writes on both sides ----
	k.F = BenignCfg()
	k.Cut(0, 1)
	for j := 0; j < 40; j++ {
		k.Step()
	}
	k.Tick(2500 * time.Millisecond)
	for j := 0; j < 40; j++ {
		if en, _ := k.PendingCount(); en == 0 {
			break
		}
		k.Step()
	}
	k.Tick(1500 * time.Millisecond)
	wseq := 0
	for _, r := range dbs {
		for side := 0; side < 2; side++ {
			for j, m := 0, k.C.Range(1, 3); j < m; j++ {
				wseq++
				val := fmt.Sprintf("w%d.%d", side, wseq)
				st := r.st[side]
				op := k.Do(side, "write "+val, 20, func() (interface{}, error) {
					ctx, cancel := OpCtx(time.Minute)
					defer cancel()
					return c09Write(ctx, st, val)
				})
				if !op.Done || op.Err != nil {
					k.Failf("C18/write-error", "write by an authorised writer failed: done=%v err=%v", op.Done, op.Err)
				}
				r.acked[side] = append(r.acked[side], op.Val.(operation.Operation).GetEntry().GetHash().String())
			}
		}
	}
	k.Steps(k.C.Intn(10))
	// ---- heal; a database is closed while the head exchanges are under way ----
	k.Heal(0, 1)
	k.F = FaultCfg{Deliver: 4, Refresh: 3, Serve: 3, Tick: 2}
	k.Steps(k.C.Intn(61))
	target := k.C.Intn(ndb)
	closers := []int{0}
	if k.C.Chance(1, 3) {
		closers = append(closers, 1)
	}
	tookPart := false
	for _, side := range closers {
		r := dbs[target]
		if side == 1 {
			r = dbs[k.C.Intn(ndb)]
		}
		if r.closed[side] {
			continue
		}
		if side == 0 {
			tookPart = true
		}
		st := r.st[side]
		op := k.Go(side, "close-store", func() (interface{}, error) { return nil, st.Close() })
		k.Wait()
		for j := 0; j < 120 && !k.IsDone(op); j++ {
			k.Step()
		}
		if !k.IsDone(op) {
			k.Tick(35 * time.Second)
		}
		if !k.IsDone(op) {
			k.Failf("C18/close-hang/close-store", "Close of one of %d databases during the head exchanges after a heal did not return within 30 virtual seconds", ndb)
		}
		r.closed[side] = true
		k.Steps(k.C.Intn(8))
	}
	k.F = BenignCfg()
	rest := k.Settle(120*time.Second, 4000, nil)
	checked := 0
	for i, r := range dbs {
		if r.closed[0] || r.closed[1] {
			continue
		}
		for side := 0; side < 2; side++ {
			have := LogHashSet(r.st[side])
			for _, h := range r.acked[1-side] {
				if !have[h] {
					k.Failf("C18/sibling-replication-stopped", "after n%d closed database #%d (of %d) during the head exchanges that followed a heal, database #%d, open on both sides, stays behind on n%d: it holds %d entries and lacks an acknowledged write of the other side (at rest: %v, 120 virtual seconds after the last close; pending=%v); n0 %v, n1 %v", closers[0], target, ndb, i, side, len(have), rest, k.PendingDesc(), LogNames(r.st[0]), LogNames(r.st[1]))
				}
			}
			checked++
		}
	}
	k.Notes["checked"] = checked
	k.Notes["nontrivial"] = checked > 0 && tookPart
	for _, p := range peers {
		k.StopPeer(p)
	}
}

func init() {
	Register(&Scenario{Prop: "C18", Name: "legacy-subscribers-leave", Run: scenC18Legacy, Weight: 1,
		Rule: "one instance, one store; 1-3 subscribers of the deprecated channel API (Subscribe / GlobalChannel) each give up (cancel their context) 0-12 scheduling points after subscribing, or later, after 0-40 events went through a channel they read slowly or not at all (so that the buffering goroutines are anywhere between taking an event and waiting for the next); writes go on meanwhile; then the store and the instance are closed; oracle: 15 virtual seconds later every such channel has been closed and no goroutine created in go-orbit-db packages is left in the bubble; non-trivial = at least one subscriber gave up while its buffering goroutines were running (not yet waiting)"})
}

func scenC18Legacy(k *K) {
	P, err := k.StartPeer(k.W.AddNode())
	if err != nil {
		panic(abortPanic{err.Error()})
	}
	typ := []string{"keyvalue", "eventlog", "docstore"}[k.C.Intn(3)]
	op := k.Do(0, "create", 50, func() (interface{}, error) {
		ctx, cancel := OpCtx(time.Minute)
		defer cancel()
		return P.DB.Create(ctx, "db", typ, nil)
	})
	if !op.Done || op.Err != nil {
		panic(abortPanic{fmt.Sprint(op.Err)})
	}
	st := op.Val.(iface.Store)
	legacy := st.(events.EmitterInterface)
	type lsub struct {
		ch     <-chan events.Event
		cancel context.CancelFunc
		name   string
	}
	var subs []*lsub
	early := 0
	wseq := 0
	write := func() {
		wseq++
		val := fmt.Sprintf("w%d", wseq)
		k.Do(0, "write "+val, 20, func() (interface{}, error) {
			ctx, cancel := OpCtx(time.Minute)
			defer cancel()
			return c09Write(ctx, st, val)
		})
	}
	for i, m := 0, k.C.Range(1, 3); i < m; i++ {
		ctx, cancel := context.WithCancel(context.Background())
		k.cleanups = append(k.cleanups, func() { cancel() })
		s := &lsub{cancel: cancel, name: fmt.Sprintf("subscriber-%d", i)}
		global := i == 1 && k.C.Chance(1, 2)
		mode := k.C.Intn(3) // 0: gives up a few scheduling points after subscribing; 1: after some events, never reading; 2: after some events, reading a few
		yields := k.C.Intn(13)
		sop := k.Go(0, s.name, func() (interface{}, error) {
			if global {
				s.ch = legacy.GlobalChannel(ctx)
			} else {
				s.ch = legacy.Subscribe(ctx)
			}
			if mode == 0 {
				for j := 0; j < yields; j++ {
					runtime.Gosched()
				}
				cancel()
			}
			return nil, nil
		})
		k.Wait()
		if !k.IsDone(sop) {
			k.Failf("C18/legacy-subscribe-hang", "%s did not return", s.name)
		}
		subs = append(subs, s)
		if mode == 0 {
			early++
			k.W.Stat("legacy-subscriber-left-right-after-subscribing")
			continue
		}
		for j, n := 0, k.C.Intn(41); j < n; j++ {
			write()
			if mode == 2 && k.C.Chance(1, 2) {
				select {
				case <-s.ch:
				default:
				}
			}
		}
		// gives up from a goroutine of its own, a few scheduling points after taking one more event
		gop := k.Go(0, s.name+"-leaves", func() (interface{}, error) {
			select {
			case <-s.ch:
			default:
			}
			for j := 0; j < yields; j++ {
				runtime.Gosched()
			}
			cancel()
			return nil, nil
		})
		k.Wait()
		if !k.IsDone(gop) {
			k.Failf("C18/legacy-subscribe-hang", "%s could not leave", s.name)
		}
		early++
		k.W.Stat("legacy-subscriber-left-mid-stream")
		write()
	}
	k.Do(0, "close-store", 60, func() (interface{}, error) { return nil, st.Close() })
	cop := k.Do(0, "close-instance", 120, func() (interface{}, error) { return nil, P.DB.Close() })
	if !cop.Done {
		k.Failf("C18/close-hang/close-instance", "Close of the instance did not return")
	}
	k.Settle(20*time.Second, 400, nil)
	k.Tick(15 * time.Second)
	k.Wait()
	for _, s := range subs {
		closed := false
		for j := 0; j < 4096 && !closed; j++ {
			select {
			case _, ok := <-s.ch:
				closed = !ok
			default:
				j = 4096
			}
		}
		if !closed {
			k.Failf("C18/legacy-channel-not-closed", "15 virtual seconds after %s cancelled its context (and the store and the instance were closed) its channel has not been closed; goroutines left:\n%s", s.name, strings.Join(inBubbleSUTGoroutines(), "\n\n"))
		}
	}
	if left := inBubbleSUTGoroutines(); len(left) > 0 {
		k.Failf("C18/goroutine-leak/legacy-subscriber", "15 virtual seconds after the subscribers left and the instance was closed %d goroutine(s) created in go-orbit-db packages are still alive:\n%s", len(left), strings.Join(left[:min(3, len(left))], "\n\n"))
	}
	k.Notes["subscribers"] = len(subs)
	k.Notes["nontrivial"] = early > 0
}

func init() {
	Register(&Scenario{Prop: "C18", Name: "cache-manager-lifecycle", Run: scenC18CacheLifecycle, Weight: 1,
		Rule: "one instance on the repository's own cache manager (cacheleveldown, leveldb in memory, inside the bubble); 2-3 databases with a few entries; 3-8 lifecycle calls, 1-3 of them under way at the same time, drawn from {close a store, open a closed database again, drop a database through its current or through an earlier (closed) handle, write to a store}; then the instance is closed (sometimes while calls are still under way); oracle: every call returns within 30 virtual seconds and none panics; 15 virtual seconds after the instance was closed no goroutine created in go-orbit-db packages is left; non-trivial = at least one Drop or reopen ran while another call was under way"})
}

func scenC18CacheLifecycle(k *K) {
	z, err := k.StartPeer(k.W.AddNode(), WithRealMemoryCache())
	if err != nil {
		panic(abortPanic{err.Error()})
	}
	no := false
	type rec struct {
		addr    string
		cur     iface.Store
		handles []iface.Store
		closing bool // Close or Drop of cur has been called (it may still be under way)
	}
	var dbs []*rec
	for d, m := 0, k.C.Range(2, 3); d < m; d++ {
		typ := []string{"keyvalue", "eventlog", "docstore"}[k.C.Intn(3)]
		op := k.Do(0, "create", 100, func() (interface{}, error) {
			ctx, cancel := OpCtx(time.Minute)
			defer cancel()
			return z.DB.Create(ctx, fmt.Sprintf("db%d", d), typ, &orbitdb.CreateDBOptions{Replicate: &no})
		})
		if !op.Done || op.Err != nil {
			panic(abortPanic{fmt.Sprint(op.Err)})
		}
		r := &rec{cur: op.Val.(iface.Store)}
		r.addr = r.cur.Address().String()
		r.handles = []iface.Store{r.cur}
		dbs = append(dbs, r)
		for j, n := 0, k.C.Range(0, 2); j < n; j++ {
			st, val := r.cur, fmt.Sprintf("d%d.%d", d, j)
			k.Do(0, "write "+val, 20, func() (interface{}, error) {
				ctx, cancel := OpCtx(time.Minute)
				defer cancel()
				return c09Write(ctx, st, val)
			})
		}
	}
	overlapping := false
	var inflight []*Op
	settle := func(all bool) {
		var keep []*Op
		for _, o := range inflight {
			for j := 0; j < 60 && !k.IsDone(o) && all; j++ {
				k.Step()
			}
			if !k.IsDone(o) && all {
				k.Tick(35 * time.Second)
			}
			if !k.IsDone(o) {
				if all {
					k.Failf("C18/lifecycle-hang", "%q on an instance that uses the leveldb cache manager did not return within 30 virtual seconds (calls under way at the same time: %d)", o.Name, len(inflight))
				}
				keep = append(keep, o)
			}
		}
		inflight = keep
	}
	for i, m := 0, k.C.Range(3, 8); i < m; i++ {
		r := dbs[k.C.Intn(len(dbs))]
		var op *Op
		switch k.C.Intn(5) {
		case 0:
			st := r.cur
			r.closing = true
			op = k.Go(0, "close-store", func() (interface{}, error) { return nil, st.Close() })
		case 1:
			if !r.closing {
				// a database is not opened a second time while its store is open (two stores
				// over one cache are not a supported use)
				continue
			}
			r.closing = false
			op = k.Go(0, "reopen", func() (interface{}, error) {
				ctx, cancel := OpCtx(30 * time.Second)
				defer cancel()
				st, err := z.DB.Open(ctx, r.addr, &orbitdb.CreateDBOptions{Replicate: &no})
				if err == nil {
					r.cur = st
					r.handles = append(r.handles, st)
				}
				return nil, err
			})
			overlapping = overlapping || len(inflight) > 0
		case 2, 3:
			st := r.handles[k.C.Intn(len(r.handles))]
			if st == r.cur {
				r.closing = true
			}
			op = k.Go(0, "drop", func() (interface{}, error) { return nil, st.Drop() })
			overlapping = overlapping || len(inflight) > 0
		case 4:
			st, val := r.cur, fmt.Sprintf("w%d", i)
			op = k.Go(0, "write "+val, func() (interface{}, error) {
				ctx, cancel := OpCtx(30 * time.Second)
				defer cancel()
				return c09Write(ctx, st, val)
			})
		}
		inflight = append(inflight, op)
		k.Wait()
		for j, g := 0, k.C.Intn(4); j < g; j++ {
			k.Step()
		}
		settle(len(inflight) >= k.C.Range(1, 3))
	}
	if k.C.Chance(1, 2) {
		settle(true)
	}
	cop := k.Go(0, "close-instance", func() (interface{}, error) { return nil, z.DB.Close() })
	inflight = append(inflight, cop)
	k.Wait()
	settle(true)
	k.Settle(20*time.Second, 400, nil)
	k.Tick(15 * time.Second)
	k.Wait()
	z.Inc.Cancel()
	k.W.Detach(z.Inc)
	k.Wait()
	if left := inBubbleSUTGoroutines(); len(left) > 0 {
		k.Failf("C18/goroutine-leak/close-instance-nonzero", "15 virtual seconds after closing an instance that uses the leveldb cache manager %d goroutine(s) created in go-orbit-db packages are still alive:\n%s", len(left), strings.Join(left[:min(3, len(left))], "\n\n"))
	}
	k.Notes["nontrivial"] = overlapping
}
