package sim

import (
	"context"
	"errors"
	"fmt"
	"io"

	"github.com/libp2p/go-libp2p/core/host"
	"github.com/libp2p/go-libp2p/core/network"
	"github.com/libp2p/go-libp2p/core/peer"
	"github.com/libp2p/go-libp2p/core/protocol"
)

// SimHost is the stub libp2p host used by the directchannel adapter: stream handlers are
// registered per incarnation, NewStream creates a kernel-driven byte pipe to the remote
// handler. The kernel alone moves bytes (in chunks of its choosing), delivers EOF, resets or
// truncates a stream.
type SimHost struct {
	host.Host
	inc *Inc
}

func (i *Inc) Host() *SimHost { return &SimHost{inc: i} }

func (h *SimHost) ID() peer.ID { return h.inc.Node.ID }

func (h *SimHost) SetStreamHandler(pid protocol.ID, handler network.StreamHandler) {
	w := h.inc.Node.W
	w.mu.Lock()
	h.inc.handlers[string(pid)] = handler
	w.mu.Unlock()
}

func (h *SimHost) RemoveStreamHandler(pid protocol.ID) {
	w := h.inc.Node.W
	w.mu.Lock()
	delete(h.inc.handlers, string(pid))
	w.mu.Unlock()
}

func (h *SimHost) NewStream(ctx context.Context, p peer.ID, pids ...protocol.ID) (network.Stream, error) {
	w := h.inc.Node.W
	w.mu.Lock()
	defer w.mu.Unlock()
	if h.inc.detached {
		return nil, errors.New("sim: node is down")
	}
	dst := w.nodeByPeer(p)
	if dst == nil || !dst.Inc.live() || !w.linked(h.inc.Node.Idx, dst.Idx) {
		w.stat("stream-dial-failed")
		return nil, fmt.Errorf("sim: cannot reach peer %s", p)
	}
	var handler network.StreamHandler
	for _, pid := range pids {
		if hd, ok := dst.Inc.handlers[string(pid)]; ok {
			handler = hd
			break
		}
	}
	if handler == nil {
		return nil, errors.New("sim: protocol not supported")
	}
	w.pseq++
	s := &SimStream{w: w, id: w.pseq, src: h.inc.Node, dst: dst, notify: make(chan struct{}, 1)}
	if w.StreamCloseErrNext > 0 {
		// the connection will be gone by the time the writer closes: everything written is
		// delivered, Close reports the loss
		w.StreamCloseErrNext--
		s.closeErr = true
		w.stat("stream-close-error")
	}
	w.streams = append(w.streams, s)
	w.stat("stream-open")
	rd := &streamReader{s: s}
	go handler(rd)
	return &streamWriter{s: s}, nil
}

// SimStream is one direction of bytes from a writer (dialer) to a reader (handler side).
type SimStream struct {
	w        *World
	id       int
	src, dst *Node
	inflight []byte // written, not yet delivered
	avail    []byte // delivered, not yet read
	wclosed  bool   // writer closed: EOF follows the last in-flight byte
	eof      bool   // EOF delivered to the reader
	reset    bool   // reader sees an error
	rclosed  bool   // reader side reset/closed the stream
	trunc    bool   // the kernel cut the stream short
	closeErr bool   // the writer's Close reports an error although every byte gets through
	notify   chan struct{}
}

func (s *SimStream) wake() {
	select {
	case s.notify <- struct{}{}:
	default:
	}
}

// pendingWork: the kernel can still do something with this stream.
func (s *SimStream) pendingWork() bool {
	return !s.rclosed && !s.reset && !s.eof && (len(s.inflight) > 0 || s.wclosed)
}

type streamWriter struct {
	network.Stream
	s *SimStream
}

func (sw *streamWriter) Write(p []byte) (int, error) {
	s := sw.s
	s.w.mu.Lock()
	defer s.w.mu.Unlock()
	if s.wclosed || s.reset {
		return 0, errors.New("sim: write on closed stream")
	}
	s.inflight = append(s.inflight, p...)
	return len(p), nil
}

func (sw *streamWriter) Close() error {
	s := sw.s
	s.w.mu.Lock()
	s.wclosed = true
	ce := s.closeErr
	s.w.mu.Unlock()
	if ce {
		return errors.New("sim: stream reset")
	}
	return nil
}

func (sw *streamWriter) CloseWrite() error { return sw.Close() }

func (sw *streamWriter) Reset() error {
	s := sw.s
	s.w.mu.Lock()
	s.reset = true
	s.wake()
	s.w.mu.Unlock()
	return nil
}

type streamReader struct {
	network.Stream
	s *SimStream
}

type simConn struct {
	network.Conn
	remote peer.ID
}

func (c simConn) RemotePeer() peer.ID { return c.remote }

func (sr *streamReader) Conn() network.Conn { return simConn{remote: sr.s.src.ID} }

func (sr *streamReader) Read(p []byte) (int, error) {
	s := sr.s
	for {
		s.w.mu.Lock()
		if s.rclosed {
			s.w.mu.Unlock()
			return 0, errors.New("sim: stream closed")
		}
		if len(s.avail) > 0 {
			n := copy(p, s.avail)
			s.avail = s.avail[n:]
			s.w.mu.Unlock()
			return n, nil
		}
		if s.reset {
			s.w.mu.Unlock()
			return 0, errors.New("sim: stream reset")
		}
		if s.eof {
			s.w.mu.Unlock()
			return 0, io.EOF
		}
		s.w.mu.Unlock()
		<-s.notify
	}
}

func (sr *streamReader) Reset() error {
	s := sr.s
	s.w.mu.Lock()
	s.rclosed = true
	s.wake()
	s.w.mu.Unlock()
	return nil
}

func (sr *streamReader) Close() error { return sr.Reset() }

// ---- kernel actions on streams ----

func (k *K) activeStreams() []*SimStream {
	w := k.W
	w.mu.Lock()
	defer w.mu.Unlock()
	var out []*SimStream
	for _, s := range w.streams {
		if s.pendingWork() {
			out = append(out, s)
		}
	}
	return out
}

// StreamChunk delivers up to max bytes (or EOF when nothing is in flight and the writer closed).
func (k *K) StreamChunk(s *SimStream, max int) {
	w := k.W
	w.mu.Lock()
	defer w.mu.Unlock()
	if len(s.inflight) > 0 {
		n := max
		if n > len(s.inflight) {
			n = len(s.inflight)
		}
		s.avail = append(s.avail, s.inflight[:n]...)
		s.inflight = s.inflight[n:]
		w.tr("stream%d chunk %d (left %d)", s.id, n, len(s.inflight))
		w.stat("stream-chunk")
	} else if s.wclosed {
		s.eof = true
		w.tr("stream%d eof", s.id)
		w.stat("stream-eof")
	}
	s.wake()
}

func (k *K) StreamReset(s *SimStream) {
	w := k.W
	w.mu.Lock()
	s.reset = true
	s.inflight = nil
	w.tr("stream%d reset", s.id)
	w.stat("stream-reset")
	s.wake()
	w.mu.Unlock()
}

func (k *K) StreamTruncate(s *SimStream) {
	w := k.W
	w.mu.Lock()
	s.inflight = nil
	s.wclosed = true
	s.eof = true
	s.trunc = true
	w.tr("stream%d truncated", s.id)
	w.stat("stream-truncate")
	s.wake()
	w.mu.Unlock()
}

// RawStream lets a hostile peer open a stream to a victim's handler and write any bytes.
func (k *K) RawStream(from *Inc, to *Node, proto string) (*SimStream, error) {
	st, err := from.Host().NewStream(context.Background(), to.ID, protocol.ID(proto))
	if err != nil {
		return nil, err
	}
	return st.(*streamWriter).s, nil
}

func (s *SimStream) WriteRaw(p []byte, closeAfter bool) {
	s.w.mu.Lock()
	s.inflight = append(s.inflight, p...)
	if closeAfter {
		s.wclosed = true
	}
	s.w.mu.Unlock()
}

// closeAllStreams ends every stream (teardown).
func (w *World) closeAllStreams() {
	for _, s := range w.streams {
		s.reset = true
		s.rclosed = true
		s.wake()
	}
}
