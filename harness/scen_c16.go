package sim

import (
	"context"
	"encoding/json"
	"fmt"
	cid "github.com/ipfs/go-cid"
	"strings"
	"sync"
	"time"

	ipfslog "berty.tech/go-ipfs-log"
	"berty.tech/go-ipfs-log/entry"
	"berty.tech/go-orbit-db/events"
	"berty.tech/go-orbit-db/iface"
	"berty.tech/go-orbit-db/stores"
	"github.com/libp2p/go-libp2p/p2p/host/eventbus"
)

func init() {
	Register(&Scenario{Prop: "C16", Name: "event-delivery", Run: scenC16, SoftParks: true, Weight: 1,
		Rule: "store on P fed by local writes (at most one in flight, because the event bus sends while holding a per-type mutex) and by replication from Q; subscribers on P: a never-stalled reference subscriber, 1-2 event-bus subscribers with buffer 1/2/4/16 and 1-2 legacy channel subscribers (Subscribe / GlobalChannel); the kernel paces each subscriber with tokens (one receive attempt per token) and stalls them for drawn stretches, long enough to fill the 16-slot legacy channel and its overflow queue when more than 16 events are produced; the legacy emitter's drain goroutine parks at events.after-dequeue and is released in drawn order; 4-30 events per run; oracle: per event type every subscriber's sequence equals the reference sequence (no loss, duplication or reordering), there is exactly one EventWrite per successful local write and it carries that entry, and on receipt of EventWrite / EventReplicated the announced entries are already in the log and listing; non-trivial = >=4 events and some subscriber was stalled while >=2 events were produced"})
}

type c16sub struct {
	name   string
	tokens chan struct{}
	mu     sync.Mutex
	seq    map[string][]string // type -> keys in receipt order
	fails  []string
	recv   func() (interface{}, bool)
	stall  int
	n      int
}

func c16key(e interface{}) (string, string, bool) {
	switch ev := e.(type) {
	case stores.EventWrite:
		return "W", ev.Entry.GetHash().String(), true
	case stores.EventReplicated:
		var hs []string
		for _, en := range ev.Entries {
			hs = append(hs, en.GetHash().String())
		}
		return "R", strings.Join(hs, "+"), true
	}
	return "", "", false
}

func scenC16(k *K) {
	typ := []string{"eventlog", "keyvalue"}[k.C.Intn(2)]
	c := k.NewCluster(ClusterCfg{N: 2, Type: typ})
	P := c.Stores[0]
	addr := P.Address().String()
	bus := c.Peers[0].DB.EventBus()
	ctx, cancel := context.WithCancel(context.Background())
	k.cleanups = append(k.cleanups, cancel)
	check := c16StateCheck(P, addr)
	newSub := func(name string, recv func() (interface{}, bool)) *c16sub {
		s := &c16sub{name: name, tokens: make(chan struct{}, 1<<16), seq: map[string][]string{}, recv: recv}
		go func() {
			for {
				select {
				case <-s.tokens:
				case <-ctx.Done():
					return
				}
				e, ok := s.recv()
				if !ok {
					continue
				}
				if t, key, ok := c16key(e); ok {
					s.mu.Lock()
					s.seq[t] = append(s.seq[t], key)
					s.n++
					if msg := atomicRead(func() string { return check(name, e) }); msg != "" {
						s.fails = append(s.fails, msg)
					}
					s.mu.Unlock()
				}
			}
		}()
		return s
	}
	// reference: never stalled
	refSub, err := bus.Subscribe([]interface{}{new(stores.EventWrite), new(stores.EventReplicated)}, eventbus.BufSize(8192))
	if err != nil {
		panic(abortPanic{err.Error()})
	}
	ref := &c16sub{name: "reference", seq: map[string][]string{}}
	go func() {
		defer refSub.Close()
		for {
			select {
			case e := <-refSub.Out():
				if t, key, ok := c16key(e); ok {
					ref.mu.Lock()
					ref.seq[t] = append(ref.seq[t], key)
					ref.n++
					ref.mu.Unlock()
				}
			case <-ctx.Done():
				return
			}
		}
	}()
	var subs []*c16sub
	for i, m := 0, k.C.Range(1, 2); i < m; i++ {
		buf := []int{1, 2, 4, 16}[k.C.Intn(4)]
		ts, err := bus.Subscribe([]interface{}{new(stores.EventWrite), new(stores.EventReplicated)}, eventbus.BufSize(buf))
		if err != nil {
			panic(abortPanic{err.Error()})
		}
		k.cleanups = append(k.cleanups, func() { ts.Close() })
		subs = append(subs, newSub(fmt.Sprintf("bus-subscriber-%d(buf=%d)", i, buf), func() (interface{}, bool) {
			select {
			case e := <-ts.Out():
				return e, true
			default:
				return nil, false
			}
		}))
	}
	k.InstallHooks(func(pt string, owner interface{}) bool { return pt == "events.after-dequeue" })
	legacy := P.(events.EmitterInterface)
	for i, m := 0, k.C.Range(1, 2); i < m; i++ {
		var ch <-chan events.Event
		name := fmt.Sprintf("legacy-subscribe-%d", i)
		if i == 1 && k.C.Chance(1, 2) {
			ch = legacy.GlobalChannel(ctx)
			name = "legacy-global-channel"
		} else {
			ch = legacy.Subscribe(ctx)
		}
		subs = append(subs, newSub(name, func() (interface{}, bool) {
			select {
			case e, ok := <-ch:
				return e, ok
			default:
				return nil, false
			}
		}))
	}
	k.F = FaultCfg{Deliver: 5, Serve: 5, Refresh: 3, Tick: 1, Reorder: 1, ServeAny: 1}
	k.Invariant = func() {
		if kv, ok := P.(iface.KeyValueStore); ok {
			if want, got := ReplayLWW(LogValues(kv)), KVState(kv); !EqMap(want, got) {
				k.Failf("C16/view-behind-log", "at a quiescent point P's view %s is not the replay of its log %s", MapStr(got), MapStr(want))
			}
		}
	}
	target := k.C.Range(4, 30)
	overflow := k.C.Chance(1, 2) // aim at the legacy emitter's overflow queue: more than 16 events behind a stalled consumer
	if overflow {
		target = k.C.Range(20, 40)
	}
	holdUntil := 0
	if overflow {
		// the legacy consumers read nothing until 16..20 events are waiting: channel full,
		// overflow queue holding 0..4 events - the boundary the emitter's fast path looks at
		holdUntil = 16 + k.C.Intn(5)
	}
	var inflight *Op
	produced := func() int { ref.mu.Lock(); defer ref.mu.Unlock(); return ref.n }
	localWrites := 0
	stalledWhileProducing := false
	lastProduced := 0
	stallMark := map[*c16sub]int{}
	for i := 0; i < 1500 && (produced() < target || i < 40); i++ {
		k.Wait()
		if inflight != nil && k.IsDone(inflight) {
			if inflight.Err == nil {
				localWrites++
			}
			inflight = nil
		}
		if p := produced(); p != lastProduced {
			for _, s := range subs {
				if s.stall > 0 {
					stallMark[s] += p - lastProduced
					if stallMark[s] >= 2 {
						stalledWhileProducing = true
					}
				}
			}
			lastProduced = p
		}
		switch k.C.Weighted([]int{5, 4, 6, 4, 5, 2}) {
		case 0: // local write, at most one in flight
			if inflight == nil && produced() < target {
				st := P
				val := c.NextVal(0)
				inflight = k.Go(0, "write "+val, func() (interface{}, error) {
					cx, cancel := OpCtx(10 * time.Minute)
					defer cancel()
					return c09Write(cx, st, val)
				})
			}
		case 1: // remote write, replicated into P by the network steps
			// (not while an event-bus subscriber is stalled: the bus sends while holding a per-type
			// mutex, the store's main loop would block on it, the replicator's 128-slot channel
			// to the main loop would fill and replicator.Load would block holding its mutex -
			// back-pressure by design, but a mutex wait is invisible to synctest.Wait)
			busStalled := false
			for _, s := range subs {
				if s.stall > 0 && strings.HasPrefix(s.name, "bus") {
					busStalled = true
				}
			}
			if produced() < target && !busStalled {
				st := c.Stores[1]
				val := c.NextVal(1)
				k.Do(1, "remote-write "+val, 10, func() (interface{}, error) {
					cx, cancel := OpCtx(time.Minute)
					defer cancel()
					return c09Write(cx, st, val)
				})
			}
		case 2: // pace a subscriber
			s := subs[k.C.Intn(len(subs))]
			if strings.HasPrefix(s.name, "legacy") && produced() < holdUntil {
				s.stall = 1 // counted as stalled
				break
			}
			if s.stall > 0 {
				s.stall--
				break
			}
			for j, m := 0, k.C.Range(1, 3); j < m; j++ {
				s.tokens <- struct{}{}
			}
		case 3: // stall a subscriber for a stretch
			s := subs[k.C.Intn(len(subs))]
			if s.stall == 0 {
				s.stall = k.C.Range(3, 40)
				if overflow && strings.HasPrefix(s.name, "legacy") {
					s.stall = k.C.Range(3, 120)
				}
				stallMark[s] = 0
				k.W.Stat("subscriber-stall")
			}
		case 4:
			if ps := k.Parks(); len(ps) > 0 {
				k.bump()
				k.ReleaseOne(k.C.Intn(len(ps)))
			} else {
				k.Step()
			}
		case 5:
			k.Step()
		}
	}
	// ---- drain everything ----
	for round := 0; round < 4000; round++ {
		k.Wait()
		if ps := k.Parks(); len(ps) > 0 {
			k.bump()
			k.ReleaseOne(k.C.Intn(len(ps)))
			continue
		}
		if en, _ := k.PendingCount(); en > 0 {
			k.Step()
			continue
		}
		done := true
		total := produced()
		for _, s := range subs {
			s.mu.Lock()
			n := s.n
			s.mu.Unlock()
			if n < total {
				done = false
				s.tokens <- struct{}{}
			}
		}
		if inflight != nil && !k.IsDone(inflight) {
			done = false
		}
		if done {
			break
		}
		if round%50 == 49 {
			k.Tick(time.Second)
		}
	}
	k.Wait()
	if inflight != nil && k.IsDone(inflight) && inflight.Err == nil {
		localWrites++
	}
	UninstallHooks()
	// ---- oracle ----
	ref.mu.Lock()
	refSeq := map[string][]string{"W": append([]string(nil), ref.seq["W"]...), "R": append([]string(nil), ref.seq["R"]...)}
	ref.mu.Unlock()
	if len(refSeq["W"]) != localWrites {
		k.Failf("C16/write-event-count", "%d successful local writes but %d EventWrite events were emitted", localWrites, len(refSeq["W"]))
	}
	seenW := map[string]bool{}
	for _, h := range refSeq["W"] {
		if seenW[h] {
			k.Failf("C16/write-event-duplicate", "two EventWrite events carry the same entry")
		}
		seenW[h] = true
	}
	for _, s := range subs {
		s.mu.Lock()
		fails := s.fails
		got := map[string][]string{"W": s.seq["W"], "R": s.seq["R"]}
		s.mu.Unlock()
		if len(fails) > 0 {
			k.Failf("C16/event-ahead-of-state", "%s", fails[0])
		}
		for _, t := range []string{"W", "R"} {
			if !EqStrs(got[t], refSeq[t]) {
				kind := "reordered"
				if len(got[t]) < len(refSeq[t]) {
					kind = "lost"
				} else if len(got[t]) > len(refSeq[t]) {
					kind = "duplicated"
				}
				cls := "bus"
				if strings.HasPrefix(s.name, "legacy") {
					cls = "legacy"
				}
				k.Failf("C16/"+cls+"-subscriber/"+kind, "%s received type %s events as %v, emission order was %v", s.name, t, c.names(got[t]), c.names(refSeq[t]))
			}
		}
	}
	k.Notes["events"] = produced()
	k.Notes["local_writes"] = localWrites
	k.Notes["nontrivial"] = produced() >= 4 && stalledWhileProducing
	cancel()
	c.CloseAll()
}

// c16StateCheck: the state check run by subscribers on receipt of an event.
func c16StateCheck(P iface.Store, addr string) func(who string, e interface{}) string {
	return func(who string, e interface{}) string {
		switch ev := e.(type) {
		case stores.EventWrite:
			if ev.Address.String() != addr {
				return ""
			}
			if _, ok := P.OpLog().Get(ev.Entry.GetHash()); !ok {
				return fmt.Sprintf("%s got EventWrite for %s before the entry is in the log", who, EntryName(ev.Entry))
			}
			if el, ok := P.(iface.EventLogStore); ok {
				if !containsVal(listValues(el), valueOf(ev.Entry.GetPayload())) {
					return fmt.Sprintf("%s got EventWrite for %s but List(-1) does not show it", who, EntryName(ev.Entry))
				}
			}
			if kv, ok := P.(iface.KeyValueStore); ok {
				if msg := c16ViewReflects(kv, ev.Entry); msg != "" {
					return fmt.Sprintf("%s got EventWrite for %s but %s", who, EntryName(ev.Entry), msg)
				}
			}
		case stores.EventReplicated:
			for _, en := range ev.Entries {
				if _, ok := P.OpLog().Get(en.GetHash()); !ok {
					return fmt.Sprintf("%s got EventReplicated naming %s which is not in the log", who, EntryName(en))
				}
				if el, ok := P.(iface.EventLogStore); ok {
					if !containsVal(listValues(el), valueOf(en.GetPayload())) {
						return fmt.Sprintf("%s got EventReplicated for %s but List(-1) does not show it", who, EntryName(en))
					}
				}
				if kv, ok := P.(iface.KeyValueStore); ok {
					if msg := c16ViewReflects(kv, en); msg != "" {
						return fmt.Sprintf("%s got EventReplicated for %s but %s", who, EntryName(en), msg)
					}
				}
			}
		}
		return ""
	}
}

func valueOf(payload []byte) string {
	o, ok := decodeOp(payload)
	if !ok {
		return ""
	}
	return string(o.Value)
}

func init() {
	Register(&Scenario{Prop: "C16", Name: "legacy-overflow-boundary", Run: scenC16Boundary, Weight: 1,
		Rule: "one store, one legacy channel subscriber that reads nothing while 15-20 local writes are made (16-slot channel full, overflow queue holding 0-4 events, the drain goroutine parked at events.after-dequeue with one event in hand), then reads 1-3 events, then 1-3 more writes are made before or after the parked goroutine is released (order drawn), then everything is drained; oracle: the subscriber's EventWrite sequence equals the write order; non-trivial = the overflow queue was used (>16 events before the first read)"})
}

func scenC16Boundary(k *K) {
	typ := []string{"eventlog", "keyvalue"}[k.C.Intn(2)]
	c := k.NewCluster(ClusterCfg{N: 1, Type: typ})
	P := c.Stores[0]
	ctx, cancel := context.WithCancel(context.Background())
	k.cleanups = append(k.cleanups, cancel)
	k.InstallHooks(func(pt string, owner interface{}) bool { return pt == "events.after-dequeue" })
	legacy := P.(events.EmitterInterface)
	var ch <-chan events.Event
	if k.C.Chance(1, 2) {
		ch = legacy.GlobalChannel(ctx)
	} else {
		ch = legacy.Subscribe(ctx)
	}
	var got []string
	read := func(n int) {
		for i := 0; i < n; i++ {
			k.Wait()
			select {
			case e, ok := <-ch:
				if ok {
					if t, key, ok := c16key(e); ok && t == "W" {
						got = append(got, key)
					}
				}
			default:
			}
		}
	}
	var want []string
	write := func() {
		wr := c.RandomWrite(0)
		if wr != nil {
			want = append(want, wr.Hash)
		}
	}
	first := k.C.Range(15, 20)
	for i := 0; i < first; i++ {
		write()
		if k.C.Chance(1, 5) {
			if ps := k.Parks(); len(ps) > 0 {
				k.ReleaseOne(k.C.Intn(len(ps)))
			}
		}
	}
	k.Wait()
	read(k.C.Range(1, 3))
	for i, m := 0, k.C.Range(1, 3); i < m; i++ {
		if k.C.Chance(1, 3) {
			if ps := k.Parks(); len(ps) > 0 {
				k.ReleaseOne(k.C.Intn(len(ps)))
				k.Wait()
			}
		}
		write()
	}
	for round := 0; round < 400 && len(got) < len(want); round++ {
		k.Wait()
		if ps := k.Parks(); len(ps) > 0 && k.C.Chance(2, 3) {
			k.ReleaseOne(k.C.Intn(len(ps)))
			continue
		}
		read(1)
	}
	UninstallHooks()
	k.ReleaseAllParks()
	read(8)
	if !EqStrs(got, want) {
		kind := "reordered"
		if len(got) < len(want) {
			kind = "lost"
		} else if len(got) > len(want) {
			kind = "duplicated"
		}
		k.Failf("C16/legacy-subscriber/"+kind, "the legacy channel delivered EventWrite events as %v, the writes were made as %v", c.names(got), c.names(want))
	}
	k.Notes["events"] = len(want)
	k.Notes["nontrivial"] = first > 16
	cancel()
	c.CloseAll()
}

// c16ViewReflects: when an event announcing entry e is received, the key-value view must show,
// for e's key, the effect of e or of an entry ordered after e in the log (never an older value).
func c16ViewReflects(kv iface.KeyValueStore, e ipfslog.Entry) string {
	o, ok := decodeOp(e.GetPayload())
	if !ok || o.Key == nil {
		return ""
	}
	vals := LogValues(kv)
	pos := -1
	for i, x := range vals {
		if x.GetHash().Equals(e.GetHash()) {
			pos = i
		}
	}
	if pos < 0 {
		return "the entry is not in the log's total order"
	}
	got, _ := kv.Get(context.Background(), *o.Key)
	for _, x := range vals[pos:] {
		xo, ok := decodeOp(x.GetPayload())
		if !ok || xo.Key == nil || *xo.Key != *o.Key {
			continue
		}
		if xo.Op == "PUT" && string(xo.Value) == string(got) && (got != nil || len(xo.Value) == 0) {
			return ""
		}
		if xo.Op == "DEL" && got == nil {
			return ""
		}
	}
	return fmt.Sprintf("Get(%q) returns %q, which is neither its effect nor that of a later entry", *o.Key, got)
}

// atomicRead runs an oracle read on a harness goroutine other than the kernel's without letting
// the inserted yield points interleave SUT goroutines into it (reads of log and view must see
// one state). Only one goroutine runs at a time, so flipping the flag is safe.
func atomicRead(f func() string) string {
	prev := inKernel
	inKernel = true
	defer func() { inKernel = prev }()
	return f()
}

func init() {
	Register(&Scenario{Prop: "C16", Name: "concurrent-write-events", Run: scenC16Concurrent, SoftParks: true, Weight: 1,
		Rule: "store on P (key-value or event log) with a prompt event-bus subscriber (buffer 8192, reads as soon as an event is sent, so no back-pressure); 2-5 rounds of 2-4 concurrent local writers stopped at the three write-path points and released one step at a time in drawn order, while writes on Q are replicated into P (in half of the runs a hostile peer also announces Q's valid heads together with tampered twins of them, which are fetched and refused at the merge); oracle: on receipt of each EventWrite / EventReplicated the announced entries are in the log, the listing, and the key-value view shows their effect or that of a later entry; exactly one EventWrite per successful write, carrying the entry that call returned; non-trivial = >=2 writers were parked together at least once"})
}

func scenC16Concurrent(k *K) {
	typ := []string{"keyvalue", "eventlog"}[k.C.Intn(2)]
	// in half of the runs a third, misbehaving writer is on the write list
	var adv *Adversary
	var extra []string
	if k.C.Chance(1, 2) {
		adv = k.NewAdversary()
		extra = []string{adv.Own.ID}
	}
	c := k.NewCluster(ClusterCfg{N: 2, Type: typ, ExtraIDs: extra})
	// in half of the runs the first fetches of about half of Q's entries fail: they are
	// fetched by a later request and merged below the heads the log already has
	if k.C.Chance(1, 2) {
		c.GapFill = true
		k.W.Stat("mode:gap-fill")
	}
	P := c.Stores[0]
	addr := P.Address().String()
	check := c16StateCheck(P, addr)
	replicated := map[string]bool{}
	ctx, cancel := context.WithCancel(context.Background())
	k.cleanups = append(k.cleanups, cancel)
	sub, err := c.Peers[0].DB.EventBus().Subscribe([]interface{}{new(stores.EventWrite), new(stores.EventReplicated)}, eventbus.BufSize(8192))
	if err != nil {
		panic(abortPanic{err.Error()})
	}
	var mu sync.Mutex
	var fails []string
	var wev []string
	go func() {
		defer sub.Close()
		for {
			select {
			case e := <-sub.Out():
				msg := atomicRead(func() string { return check("a prompt subscriber", e) })
				mu.Lock()
				if msg != "" {
					fails = append(fails, msg)
				}
				if t, key, ok := c16key(e); ok && t == "W" {
					if ev := e.(stores.EventWrite); ev.Address.String() == addr {
						wev = append(wev, key)
					}
				}
				if ev, ok := e.(stores.EventReplicated); ok && ev.Address.String() == addr {
					for _, en := range ev.Entries {
						replicated[en.GetHash().String()] = true
					}
				}
				mu.Unlock()
			case <-ctx.Done():
				return
			}
		}
	}()
	k.F = FaultCfg{Deliver: 5, Serve: 5, Refresh: 3, Tick: 1, Reorder: 1, ServeAny: 1}
	before := k.W.Stats["burst-writers-parked-together"]
	var acked []*WriteRec
	refusedAtMerge := map[string]bool{}
	if adv != nil {
		// the misbehaving writer announces valid entries of its own on top of tampered twins
		// of Q's heads (payload changed, so the signature no longer verifies): the twin is
		// fetched as a log of its own and refused at the merge, and must not be announced as
		// replicated
		adv.Engage(c.Peers[0], P)
	}
	for r, m := 0, k.C.Range(2, 5); r < m; r++ {
		if k.C.Chance(1, 2) {
			c.RandomWrite(1)
		}
		if adv != nil && c.Stores[1] != nil && k.C.Chance(2, 3) {
			if hs := CopyHeads(c.Stores[1].OpLog().Heads().Slice()); len(hs) > 0 {
				valid := hs[0].(*entry.Entry)
				b, _ := json.Marshal(valid)
				twin := &entry.Entry{}
				_ = json.Unmarshal(b, twin)
				twin.Payload = append(append([]byte(nil), twin.Payload...), ' ')
				if h, err := adv.StoreEntry(twin); err == nil {
					twin.Hash = h
					refusedAtMerge[h.String()] = true
					child, err := adv.Craft("own", adv.Own, nil, addr, valid.Payload, []cid.Cid{h, valid.Hash}, valid.Clock.GetTime()+1)
					if err == nil {
						heads := []*entry.Entry{valid, child}
						if k.C.Chance(1, 2) {
							heads = []*entry.Entry{child, valid}
						}
						adv.Deliver([]string{"topic", "direct"}[k.C.Intn(2)], c.Peers[0], P, heads...)
						k.W.Stat("batch-with-a-log-refused-at-merge")
					}
				}
			}
		}
		acked = append(acked, c.WriteBurst(0, k.C.Range(2, 4), k.C.Chance(4, 5))...)
		k.Steps(k.C.Intn(8))
	}
	k.Settle(60*time.Second, 1500, c.AllIdle)
	mu.Lock()
	fs, ws := append([]string(nil), fails...), append([]string(nil), wev...)
	mu.Unlock()
	if len(fs) > 0 {
		k.Failf("C16/event-ahead-of-state", "%s", fs[0])
	}
	cnt := map[string]int{}
	for _, h := range ws {
		cnt[h]++
	}
	for _, wr := range acked {
		if cnt[wr.Hash] != 1 {
			k.Failf("C16/write-event-count", "the successful write %s produced %d EventWrite events carrying its entry", wr.Name, cnt[wr.Hash])
		}
	}
	if len(ws) != len(acked) {
		k.Failf("C16/write-event-count", "%d successful local writes but %d EventWrite events were emitted", len(acked), len(ws))
	}
	// every merged remote batch produces a replicated event: what P's log holds of other
	// writers' entries was announced by one, and nothing refused at the merge was
	mu.Lock()
	own := c.Peers[0].DB.Identity().ID
	for _, e := range LogValues(P) {
		if e.GetIdentity().ID != own && !replicated[e.GetHash().String()] {
			mu.Unlock()
			k.Failf("C16/replicated-event-missing", "P's log holds %s, written by another peer, but no EventReplicated carried it (log %v)", EntryName(e), LogNames(P))
		}
	}
	for h := range refusedAtMerge {
		if replicated[h] {
			mu.Unlock()
			k.Failf("C16/replicated-event-lists-refused", "an EventReplicated carried an entry that was refused at the merge (a tampered twin of a valid head)")
		}
	}
	mu.Unlock()
	k.Notes["events"] = len(ws)
	k.Notes["local_writes"] = len(acked)
	k.Notes["nontrivial"] = k.W.Stats["burst-writers-parked-together"] > before
	cancel()
	c.CloseAll()
}
