package sim

import (
	"context"
	"crypto/sha256"
	"encoding/hex"
	"errors"
	"fmt"
	"sort"
	"strings"
	"sync"

	cid "github.com/ipfs/go-cid"
	datastore "github.com/ipfs/go-datastore"
	"github.com/ipfs/go-datastore/query"
	"github.com/libp2p/go-libp2p/core/network"
	"github.com/libp2p/go-libp2p/core/peer"
	mh "github.com/multiformats/go-multihash"
)

// ------------------------------------------------------------------------------------------
// World: all simulated state of one run. Guarded by one mutex that is only ever held for
// short, non-blocking sections (a goroutine parked while holding a sync.Mutex would make
// synctest.Wait spin forever).
// ------------------------------------------------------------------------------------------

type World struct {
	mu      sync.Mutex
	Nodes   []*Node
	cut     map[[2]int]bool
	pending []*Pend
	pseq    int // creation order of pending items (tie-break only)
	topics  map[string]int
	tnames  []string
	step    int
	Trace   []string
	obs     []string // SUT-side observations (publish, want, effect) – digest only
	Stats   map[string]int
	// knobs
	Offline    bool // a local block miss returns not-found at once (isolated recovery)
	HoldOnCut  bool // deliveries across a cut link stay pending (true) or are dropped (false)
	LogObs     bool
	EagerFetch bool           // blocks held by a linked live peer are fetched without a kernel step
	FailWant   map[string]int // cid string -> how many of the next wants for it fail with an error
	DiskFault  func(n *Node, kind, space, key string) error
	// StreamCloseErrNext: that many of the next streams opened report an error from the
	// writer's Close although all their bytes are delivered
	StreamCloseErrNext int
	OnPublish          func(src int, topic string, data []byte)
	OnEffect           func(e *Effect)
	parks              []*Park
	soft               []*Park // goroutines stalled by the kernel at a point right before a mutex acquisition
	parkSeq            int
	streams            []*SimStream
}

func NewWorld() *World {
	return &World{cut: map[[2]int]bool{}, topics: map[string]int{}, Stats: map[string]int{}, HoldOnCut: true, FailWant: map[string]int{}}
}

func (w *World) stat(k string) { w.Stats[k]++ }

func (w *World) Stat(k string) { w.mu.Lock(); w.Stats[k]++; w.mu.Unlock() }

func (w *World) tr(f string, a ...interface{}) {
	w.Trace = append(w.Trace, fmt.Sprintf("%d ", w.step)+fmt.Sprintf(f, a...))
	if yieldDebug != nil {
		yieldDebug("T " + fmt.Sprintf(f, a...))
	}
}

func (w *World) ob(f string, a ...interface{}) {
	w.obs = append(w.obs, fmt.Sprintf(f, a...))
	if yieldDebug != nil {
		yieldDebug("O " + fmt.Sprintf(f, a...))
	}
}

func (w *World) Digest() string {
	w.mu.Lock()
	defer w.mu.Unlock()
	h := sha256.New()
	h.Write([]byte(strings.Join(w.Trace, "\n")))
	h.Write([]byte("\x00"))
	h.Write([]byte(strings.Join(w.obs, "\n")))
	return hex.EncodeToString(h.Sum(nil)[:8])
}

func (w *World) topicIdx(t string) int {
	if i, ok := w.topics[t]; ok {
		return i
	}
	i := len(w.tnames)
	w.topics[t] = i
	w.tnames = append(w.tnames, t)
	return i
}

func lk(a, b int) [2]int {
	if a > b {
		a, b = b, a
	}
	return [2]int{a, b}
}

func (w *World) linked(a, b int) bool { return a == b || !w.cut[lk(a, b)] }

// ------------------------------------------------------------------------------------------
// Disk with an effect log (crash-prefix model)
// ------------------------------------------------------------------------------------------

type Effect struct {
	Step  int
	Kind  string // block | cache-put | cache-del | cache-destroy | ks-put | ks-del
	Space string // cache key path ("" for blocks / keystore)
	Key   string
	Val   []byte
}

type Disk struct {
	Effects []Effect
	blocks  map[string][]byte
	caches  map[string]map[string][]byte
	ks      map[string][]byte
}

func NewDisk() *Disk {
	return &Disk{blocks: map[string][]byte{}, caches: map[string]map[string][]byte{}, ks: map[string][]byte{}}
}

func (d *Disk) apply(e Effect) {
	d.Effects = append(d.Effects, e)
	d.applyState(e)
}

func (d *Disk) applyState(e Effect) {
	switch e.Kind {
	case "block":
		d.blocks[e.Key] = e.Val
	case "cache-put":
		m := d.caches[e.Space]
		if m == nil {
			m = map[string][]byte{}
			d.caches[e.Space] = m
		}
		m[e.Key] = e.Val
	case "cache-del":
		if m := d.caches[e.Space]; m != nil {
			delete(m, e.Key)
		}
	case "cache-destroy":
		delete(d.caches, e.Space)
	case "ks-put":
		d.ks[e.Key] = e.Val
	case "ks-del":
		delete(d.ks, e.Key)
	}
}

// FromPrefix builds the durable image after the first k effects.
func (d *Disk) FromPrefix(k int) *Disk {
	n := NewDisk()
	for i := 0; i < k && i < len(d.Effects); i++ {
		n.apply(d.Effects[i])
	}
	return n
}

func (d *Disk) HasBlock(c cid.Cid) bool { _, ok := d.blocks[c.KeyString()]; return ok }

func (d *Disk) CacheKeys(space string) []string {
	var ks []string
	for k := range d.caches[space] {
		ks = append(ks, k)
	}
	sort.Strings(ks)
	return ks
}

func (d *Disk) CacheSpaces() []string {
	var ks []string
	for k := range d.caches {
		ks = append(ks, k)
	}
	sort.Strings(ks)
	return ks
}

func (d *Disk) CacheGet(space, key string) ([]byte, bool) {
	v, ok := d.caches[space][key]
	return v, ok
}

// ------------------------------------------------------------------------------------------
// Nodes and incarnations
// ------------------------------------------------------------------------------------------

type Node struct {
	Idx  int
	ID   peer.ID
	Disk *Disk
	Inc  *Inc // current incarnation, nil when down
	W    *World
	incN int
	// CrashAtEffect: when >=0, the effect with this index (0-based, over the node's whole
	// log) is not applied and the current incarnation is detached at that instant.
	CrashAtEffect int
	Origin        int // index of the node whose identity and directory this node carries
}

// Inc is one process lifetime of a node. A detached incarnation is a zombie: nothing it
// does reaches the disk or the network.
type Inc struct {
	Node      *Node
	N         int
	detached  bool
	subs      map[string][]*Sub
	view      map[string]map[int]bool
	pubseq    int
	handlers  map[string]network.StreamHandler // libp2p stream handlers (stub host)
	Ctx       context.Context
	Cancel    context.CancelFunc
	offline   bool // a local block miss returns not-found at once (like an offline IPFS node)
	slowLocal bool // local block reads wait for a kernel step as well (slow disk)
}

// SetSlowLocal makes reads of locally held blocks wait for the kernel, like remote ones.
func (i *Inc) SetSlowLocal(b bool) {
	i.Node.W.mu.Lock()
	i.slowLocal = b
	i.Node.W.mu.Unlock()
}

func (i *Inc) SetOffline(b bool) {
	i.Node.W.mu.Lock()
	i.offline = b
	i.Node.W.mu.Unlock()
}

func PeerIDFor(i int) peer.ID {
	h, _ := mh.Sum([]byte(fmt.Sprintf("verif-peer-%d", i)), mh.SHA2_256, -1)
	return peer.ID(h)
}

func (w *World) AddNode() *Node {
	w.mu.Lock()
	defer w.mu.Unlock()
	n := &Node{Idx: len(w.Nodes), Disk: NewDisk(), W: w, CrashAtEffect: -1}
	n.Origin = n.Idx
	n.ID = PeerIDFor(n.Idx)
	w.Nodes = append(w.Nodes, n)
	return n
}

// AddNodeWithDisk adds a node that starts from a given durable image.
func (w *World) AddNodeWithDisk(idx int, d *Disk) *Node {
	w.mu.Lock()
	defer w.mu.Unlock()
	n := &Node{Idx: len(w.Nodes), Disk: d, W: w, CrashAtEffect: -1, Origin: idx}
	n.ID = PeerIDFor(idx)
	w.Nodes = append(w.Nodes, n)
	return n
}

func (w *World) nodeByPeer(p peer.ID) *Node {
	for _, n := range w.Nodes {
		if n.ID == p {
			return n
		}
	}
	return nil
}

// Boot starts a new incarnation of the node (process start).
func (n *Node) Boot() *Inc {
	w := n.W
	w.mu.Lock()
	defer w.mu.Unlock()
	n.incN++
	ctx, cancel := context.WithCancel(context.Background())
	inc := &Inc{Node: n, N: n.incN, subs: map[string][]*Sub{}, view: map[string]map[int]bool{}, handlers: map[string]network.StreamHandler{}, Ctx: ctx, Cancel: cancel}
	n.Inc = inc
	return inc
}

func (i *Inc) live() bool { return i != nil && !i.detached && i.Node.Inc == i }

// Detach makes the incarnation a zombie (crash). Pending items to or from it are purged,
// its blocked wants fail, its subscriptions end, peers get a membership refresh.
func (w *World) Detach(inc *Inc) {
	w.mu.Lock()
	w.detachLocked(inc)
	w.mu.Unlock()
}

func (w *World) detachLocked(inc *Inc) {
	if inc.detached {
		return
	}
	inc.detached = true
	if inc.Node.Inc == inc {
		inc.Node.Inc = nil
	}
	var keep []*Pend
	for _, p := range w.pending {
		switch {
		case p.kind == pkWant && p.inc == inc:
			p.done <- errors.New("sim: node crashed")
		case p.kind == pkMsg && (p.dst == inc.Node.Idx || p.srcInc == inc):
		case p.kind == pkRefresh && p.dst == inc.Node.Idx:
		default:
			keep = append(keep, p)
		}
	}
	w.pending = keep
	for t := range inc.subs {
		for _, s := range inc.subs[t] {
			s.close()
		}
		w.enqueueRefreshLocked(inc.Node.Idx, t)
	}
	inc.subs = map[string][]*Sub{}
}

// ------------------------------------------------------------------------------------------
// Pending kernel-owned effects
// ------------------------------------------------------------------------------------------

const (
	pkMsg = iota
	pkRefresh
	pkWant
)

type Pend struct {
	kind   int
	src    int
	dst    int
	topic  string
	tix    int
	seq    int
	pseq   int
	data   []byte
	from   peer.ID
	srcInc *Inc
	// want
	c    cid.Cid
	done chan error
	inc  *Inc
	dup  bool
}

func (p *Pend) String() string {
	switch p.kind {
	case pkMsg:
		d := ""
		if p.dup {
			d = "+dup"
		}
		return fmt.Sprintf("msg %d->%d t%d #%d%s len=%d", p.src, p.dst, p.tix, p.seq, d, len(p.data))
	case pkRefresh:
		return fmt.Sprintf("refresh %d->%d t%d", p.src, p.dst, p.tix)
	default:
		return fmt.Sprintf("want n%d #%d", p.src, p.seq)
	}
}

func (w *World) enqueueRefreshLocked(src int, topic string) {
	tix := w.topicIdx(topic)
	for _, o := range w.Nodes {
		if o.Idx == src {
			continue
		}
		dupe := false
		for _, p := range w.pending {
			if p.kind == pkRefresh && p.src == src && p.dst == o.Idx && p.topic == topic {
				dupe = true
				break
			}
		}
		if !dupe {
			w.pseq++
			w.pending = append(w.pending, &Pend{kind: pkRefresh, src: src, dst: o.Idx, topic: topic, tix: tix, pseq: w.pseq})
		}
	}
}

// refreshAllLocked re-announces every subscription relation between a and b (link change).
func (w *World) refreshPairLocked(a, b int) {
	for _, x := range [][2]int{{a, b}, {b, a}} {
		src, dst := w.Nodes[x[0]], w.Nodes[x[1]]
		topics := map[string]bool{}
		if src.Inc != nil {
			for t := range src.Inc.subs {
				topics[t] = true
			}
		}
		if dst.Inc != nil {
			for t, m := range dst.Inc.view {
				if m[src.Idx] {
					topics[t] = true
				}
			}
		}
		var ts []string
		for t := range topics {
			ts = append(ts, t)
		}
		sort.Slice(ts, func(i, j int) bool { return w.topicIdx(ts[i]) < w.topicIdx(ts[j]) })
		for _, t := range ts {
			dupe := false
			for _, p := range w.pending {
				if p.kind == pkRefresh && p.src == src.Idx && p.dst == dst.Idx && p.topic == t {
					dupe = true
				}
			}
			if !dupe {
				w.pseq++
				w.pending = append(w.pending, &Pend{kind: pkRefresh, src: src.Idx, dst: dst.Idx, topic: t, tix: w.topicIdx(t), pseq: w.pseq})
			}
		}
	}
}

func (w *World) enabledLocked(p *Pend) bool {
	switch p.kind {
	case pkMsg:
		d := w.Nodes[p.dst]
		return d.Inc.live() && w.linked(p.src, p.dst)
	case pkRefresh:
		return w.Nodes[p.dst].Inc.live()
	case pkWant:
		if !p.inc.live() {
			return false
		}
		if w.FailWant[p.c.String()] > 0 {
			return true
		}
		return w.providerLocked(p) != nil
	}
	return false
}

func (w *World) providerLocked(p *Pend) *Node {
	if w.Nodes[p.src].Disk.HasBlock(p.c) {
		return w.Nodes[p.src]
	}
	for _, o := range w.Nodes {
		if o.Idx != p.src && o.Inc.live() && w.linked(p.src, o.Idx) && o.Disk.HasBlock(p.c) {
			return o
		}
	}
	return nil
}

// sortedPending returns pending items of a kind in canonical order.
func (w *World) sortedPendingLocked(kind int, onlyEnabled bool) []*Pend {
	var out []*Pend
	for _, p := range w.pending {
		if p.kind == kind && (!onlyEnabled || w.enabledLocked(p)) {
			out = append(out, p)
		}
	}
	sort.SliceStable(out, func(i, j int) bool {
		a, b := out[i], out[j]
		if a.src != b.src {
			return a.src < b.src
		}
		if a.dst != b.dst {
			return a.dst < b.dst
		}
		if a.tix != b.tix {
			return a.tix < b.tix
		}
		if a.seq != b.seq {
			return a.seq < b.seq
		}
		return a.pseq < b.pseq
	})
	return out
}

func (w *World) removePendLocked(p *Pend) {
	for i, q := range w.pending {
		if q == p {
			w.pending = append(w.pending[:i:i], w.pending[i+1:]...)
			return
		}
	}
}

// exec performs one pending item (kernel only, at a quiescent point).
func (w *World) execLocked(p *Pend) {
	w.removePendLocked(p)
	switch p.kind {
	case pkMsg:
		d := w.Nodes[p.dst]
		if !d.Inc.live() {
			return
		}
		for _, s := range d.Inc.subs[p.topic] {
			s.push(&Msg{from: p.from, data: p.data, topic: p.topic})
		}
	case pkRefresh:
		d := w.Nodes[p.dst]
		s := w.Nodes[p.src]
		if !d.Inc.live() {
			return
		}
		on := s.Inc.live() && len(s.Inc.subs[p.topic]) > 0 && w.linked(p.src, p.dst)
		m := d.Inc.view[p.topic]
		if m == nil {
			m = map[int]bool{}
			d.Inc.view[p.topic] = m
		}
		if on {
			m[p.src] = true
		} else {
			delete(m, p.src)
		}
	case pkWant:
		if w.FailWant[p.c.String()] > 0 {
			if w.FailWant[p.c.String()]--; w.FailWant[p.c.String()] == 0 {
				delete(w.FailWant, p.c.String())
			}
			w.stat("want-failed")
			p.done <- errors.New("sim: injected fetch failure")
			return
		}
		prov := w.providerLocked(p)
		if prov == nil {
			p.done <- errors.New("sim: no provider")
			return
		}
		if prov.Idx != p.src {
			w.diskApplyLocked(p.inc, Effect{Kind: "block", Key: p.c.KeyString(), Val: prov.Disk.blocks[p.c.KeyString()]})
		}
		p.done <- nil
	}
}

// diskApplyLocked routes a persistence effect of an incarnation to its node's disk, honouring
// the crash-at-effect trigger and detached incarnations.
func (w *World) diskApplyLocked(inc *Inc, e Effect) {
	if inc.detached {
		return
	}
	n := inc.Node
	if n.CrashAtEffect >= 0 && len(n.Disk.Effects) == n.CrashAtEffect {
		n.CrashAtEffect = -1
		w.stat("crash@effect")
		w.tr("crash@effect n%d e%d %s", n.Idx, len(n.Disk.Effects), e.Kind)
		w.detachLocked(inc)
		return
	}
	e.Step = w.step
	n.Disk.apply(e)
	if w.LogObs {
		w.ob("eff n%d %s %s", n.Idx, e.Kind, shortKey(e))
	}
	if w.OnEffect != nil {
		w.OnEffect(&n.Disk.Effects[len(n.Disk.Effects)-1])
	}
}

func shortKey(e Effect) string {
	if e.Kind == "block" {
		return fmt.Sprintf("len=%d", len(e.Val))
	}
	k := e.Key
	if i := strings.LastIndex(k, "/"); i >= 0 {
		k = k[i:]
	}
	return k
}

// Cut / Heal links.
func (w *World) SetCut(a, b int, c bool) {
	w.mu.Lock()
	defer w.mu.Unlock()
	if c {
		w.cut[lk(a, b)] = true
		if !w.HoldOnCut {
			var keep []*Pend
			for _, p := range w.pending {
				if p.kind == pkMsg && lk(p.src, p.dst) == lk(a, b) {
					continue
				}
				keep = append(keep, p)
			}
			w.pending = keep
		}
	} else {
		delete(w.cut, lk(a, b))
	}
	w.refreshPairLocked(a, b)
}

func (w *World) IsCut(a, b int) bool { w.mu.Lock(); defer w.mu.Unlock(); return w.cut[lk(a, b)] }

// ------------------------------------------------------------------------------------------
// Datastore stub (cache spaces and keystore) over the node's disk
// ------------------------------------------------------------------------------------------

type simDS struct {
	inc     *Inc
	kind    string // "cache" | "ks"
	space   string
	closed  bool
	onClose func()
}

var errDSClosed = errors.New("sim datastore: closed")

func (s *simDS) m() map[string][]byte {
	d := s.inc.Node.Disk
	if s.kind == "ks" {
		return d.ks
	}
	return d.caches[s.space]
}

func (s *simDS) Get(_ context.Context, key datastore.Key) ([]byte, error) {
	w := s.inc.Node.W
	w.mu.Lock()
	defer w.mu.Unlock()
	if s.closed {
		return nil, errDSClosed
	}
	if w.DiskFault != nil {
		if err := w.DiskFault(s.inc.Node, s.kind+"-get", s.space, key.String()); err != nil {
			w.stat("disk-error")
			return nil, err
		}
	}
	v, ok := s.m()[key.String()]
	if !ok {
		return nil, datastore.ErrNotFound
	}
	out := make([]byte, len(v))
	copy(out, v)
	return out, nil
}

func (s *simDS) Has(ctx context.Context, key datastore.Key) (bool, error) {
	_, err := s.Get(ctx, key)
	if err == datastore.ErrNotFound {
		return false, nil
	}
	return err == nil, err
}

func (s *simDS) GetSize(ctx context.Context, key datastore.Key) (int, error) {
	v, err := s.Get(ctx, key)
	if err != nil {
		return -1, err
	}
	return len(v), nil
}

func (s *simDS) Query(_ context.Context, q query.Query) (query.Results, error) {
	w := s.inc.Node.W
	w.mu.Lock()
	defer w.mu.Unlock()
	if s.closed {
		return nil, errDSClosed
	}
	var es []query.Entry
	var keys []string
	for k := range s.m() {
		keys = append(keys, k)
	}
	sort.Strings(keys)
	for _, k := range keys {
		v := s.m()[k]
		es = append(es, query.Entry{Key: k, Value: v, Size: len(v)})
	}
	return query.NaiveQueryApply(q, query.ResultsWithEntries(q, es)), nil
}

func (s *simDS) Put(_ context.Context, key datastore.Key, value []byte) error {
	w := s.inc.Node.W
	w.mu.Lock()
	defer w.mu.Unlock()
	if s.closed {
		return errDSClosed
	}
	if w.DiskFault != nil {
		if err := w.DiskFault(s.inc.Node, s.kind+"-put", s.space, key.String()); err != nil {
			w.stat("disk-error")
			return err
		}
	}
	v := make([]byte, len(value))
	copy(v, value)
	w.diskApplyLocked(s.inc, Effect{Kind: s.kind + "-put", Space: s.space, Key: key.String(), Val: v})
	return nil
}

func (s *simDS) Delete(_ context.Context, key datastore.Key) error {
	w := s.inc.Node.W
	w.mu.Lock()
	defer w.mu.Unlock()
	if s.closed {
		return errDSClosed
	}
	w.diskApplyLocked(s.inc, Effect{Kind: s.kind + "-del", Space: s.space, Key: key.String()})
	return nil
}

func (s *simDS) Sync(context.Context, datastore.Key) error { return nil }

func (s *simDS) Close() error {
	w := s.inc.Node.W
	w.mu.Lock()
	already := s.closed
	s.closed = true
	oc := s.onClose
	var ferr error
	if !already && w.DiskFault != nil {
		// the datastore is released all the same, the error is what the caller gets to see
		if ferr = w.DiskFault(s.inc.Node, s.kind+"-close", s.space, ""); ferr != nil {
			w.stat("disk-error")
		}
	}
	w.mu.Unlock()
	if !already && oc != nil {
		oc()
	}
	return ferr
}

var _ datastore.Datastore = (*simDS)(nil)

// NewKeystoreDS returns the datastore under the node's keystore.
func (i *Inc) NewKeystoreDS() datastore.Datastore { return &simDS{inc: i, kind: "ks"} }
