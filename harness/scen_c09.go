package sim

import (
	"berty.tech/go-orbit-db/stores/basestore"
	"context"
	"encoding/json"
	"fmt"
	"strings"
	"time"

	ipfslog "berty.tech/go-ipfs-log"
	"berty.tech/go-ipfs-log/entry"
	orbitdb "berty.tech/go-orbit-db"
	"berty.tech/go-orbit-db/iface"
	"berty.tech/go-orbit-db/stores"
	"berty.tech/go-orbit-db/stores/operation"
	"github.com/libp2p/go-libp2p/core/event"
	"github.com/libp2p/go-libp2p/p2p/host/eventbus"
)

func init() {
	Register(&Scenario{Prop: "C09", Name: "multi-db-isolation", Run: scenC09, SoftParks: true, Weight: 3,
		Rule: "instance P with 2-4 databases (types and write lists mixed) on its default shared event bus, peer Q (and sometimes R) opening a random subset; one database is kept idle after setup; 4-14 (thorough 4-36) writes on the other databases from any peer holding them (one operation in four writes to all of a peer's active databases at the same time, one or two writers per database; a third of these rounds run on a healthy network, and every holder of a database must then have each of these writes 30 virtual seconds later, from the announcements alone), replication under faults, Load(-1) on a non-idle database, SaveSnapshot of a non-idle database while its replicator has unfinished work followed by LoadFromSnapshot into the same store, and (one operation in six) a head exchange for one database sent to P on the direct channel by a hostile peer that P refuses with an error (real head, address of another block), followed by a write on another shared database made while the writer is cut off from P (heard after the heal through the head exchange alone); oracles: every payload published on a database topic or a direct channel names one database and carries only heads of that database's log; the idle database's log, replication status and cached head keys never change and no store event carries its address; every EventWrite/EventReplicated carries only entries of its own database; after a final reconnect of all peers every holder of a database has every acknowledged write of that database; non-trivial = >=2 active databases on P, >=1 replication into P and >=1 write on P while the idle database was watched"})
}

type c09db struct {
	addr   string
	typ    string
	stores map[int]iface.Store // by peer index
	idle   bool
}

func scenC09(k *K) {
	np := k.C.Range(2, 3)
	var peers []*Peer
	for i := 0; i < np; i++ {
		p, err := k.StartPeer(k.W.AddNode())
		if err != nil {
			panic(abortPanic{err.Error()})
		}
		peers = append(peers, p)
	}
	var ids []string
	for _, p := range peers {
		ids = append(ids, p.DB.Identity().ID)
	}
	ndb := k.C.Range(2, 4)
	types := []string{"keyvalue", "eventlog", "docstore"}
	var dbs []*c09db
	for d := 0; d < ndb; d++ {
		typ := types[k.C.Intn(3)]
		acl := ids
		if k.C.Chance(1, 3) {
			acl = ids[:1]
		}
		name := fmt.Sprintf("db%d", d)
		if d > 0 && k.C.Chance(1, 2) {
			name = "db0" // same name, different type or write list: a different database
		}
		op := k.Do(0, "create "+name, 50, func() (interface{}, error) {
			ctx, cancel := OpCtx(60 * time.Second)
			defer cancel()
			return peers[0].DB.Create(ctx, name, typ, &orbitdb.CreateDBOptions{AccessController: WriteACL(acl...)})
		})
		if !op.Done {
			panic(abortPanic{"create hang"})
		}
		if op.Err != nil {
			continue // same name, type and write list as an existing one
		}
		st := op.Val.(iface.Store)
		dbs = append(dbs, &c09db{addr: st.Address().String(), typ: typ, stores: map[int]iface.Store{0: st}})
	}
	ndb = len(dbs)
	if ndb < 2 {
		k.Notes["nontrivial"] = false
		for _, p := range peers {
			k.StopPeer(p)
		}
		return
	}
	idleIdx := k.C.Intn(ndb)
	dbs[idleIdx].idle = true
	// other peers open random subsets (each database at least possibly shared)
	for pi := 1; pi < np; pi++ {
		for _, db := range dbs {
			if k.C.Chance(2, 3) {
				db := db
				op := k.Do(pi, "open", 400, func() (interface{}, error) {
					ctx, cancel := OpCtx(10 * time.Minute)
					defer cancel()
					return peers[pi].DB.Open(ctx, db.addr, nil)
				})
				if !op.Done || op.Err != nil {
					panic(abortPanic{fmt.Sprintf("open: done=%v %v", op.Done, op.Err)})
				}
				db.stores[pi] = op.Val.(iface.Store)
			}
		}
	}
	// let the setup traffic (joins, head exchanges of empty logs) drain
	k.Settle(30*time.Second, 1500, nil)

	byAddr := map[string]*c09db{}
	for _, db := range dbs {
		byAddr[db.addr] = db
	}
	// ---- oracle (a): what goes on the wire ----
	var wireErr *Violation
	k.W.OnPublish = func(src int, topic string, data []byte) {
		if wireErr != nil {
			return
		}
		var msg struct {
			Address string                   `json:"address"`
			Heads   []map[string]interface{} `json:"heads"`
		}
		if err := json.Unmarshal(data, &msg); err != nil {
			return
		}
		if _, isDB := byAddr[topic]; isDB {
			if msg.Address != topic {
				wireErr = &Violation{"C09/wire/foreign-address-on-topic", fmt.Sprintf("n%d published on the topic of %s a message addressed %s (%d heads)", src, short(topic), short(msg.Address), len(msg.Heads))}
				return
			}
		} else if !strings.HasPrefix(topic, "/ipfs-pubsub-direct-channel/") {
			return
		}
		for _, h := range msg.Heads {
			if id, _ := h["id"].(string); id != msg.Address {
				wireErr = &Violation{"C09/wire/foreign-head", fmt.Sprintf("n%d sent on %s a message addressed %s carrying a head of log %s", src, short(topic), short(msg.Address), short(id))}
				return
			}
		}
	}
	// ---- oracle (b,c): events on P's shared bus ----
	var evTypes []interface{}
	evTypes = append(evTypes, stores.Events...)
	sub, err := peers[0].DB.EventBus().Subscribe(evTypes, eventbus.BufSize(16384))
	if err != nil {
		panic(abortPanic{"subscribe: " + err.Error()})
	}
	k.cleanups = append(k.cleanups, func() { sub.Close() })
	idle := dbs[idleIdx]
	idleStore := idle.stores[0]
	snap := func() string {
		sp := spaceForAddress(peers[0].Node.Disk, idle.addr)
		lh, _ := peers[0].Node.Disk.CacheGet(sp, "/_localHeads")
		rh, _ := peers[0].Node.Disk.CacheGet(sp, "/_remoteHeads")
		return fmt.Sprintf("log=%v progress=%d max=%d localHeads=%x remoteHeads=%x", LogHashSeq(idleStore), idleStore.ReplicationStatus().GetProgress(), idleStore.ReplicationStatus().GetMax(), lh, rh)
	}
	k.W.mu.Lock()
	idleSnap := ""
	k.W.mu.Unlock()
	idleSnap = snap()
	checkEntries := func(kind, addr string, es []ipfslog.Entry) {
		for _, e := range es {
			if e != nil && e.GetLogID() != addr {
				k.Failf("C09/event/foreign-entry", "%s for %s carries an entry of log %s (%s)", kind, short(addr), short(e.GetLogID()), EntryName(e))
			}
		}
	}
	drain := func(ch <-chan interface{}) {
		for {
			select {
			case e := <-ch:
				var addr string
				switch ev := e.(type) {
				case stores.EventWrite:
					addr = ev.Address.String()
					checkEntries("EventWrite", addr, []ipfslog.Entry{ev.Entry})
					checkEntries("EventWrite.Heads", addr, ev.Heads)
				case stores.EventReplicated:
					addr = ev.Address.String()
					checkEntries("EventReplicated", addr, ev.Entries)
				case stores.EventReplicateProgress:
					addr = ev.Address.String()
				case stores.EventReplicate:
					addr = ev.Address.String()
				case stores.EventLoad:
					addr = ev.Address.String()
				case stores.EventReady:
					addr = ev.Address.String()
				}
				if addr == idle.addr {
					k.Failf("C09/idle/event", "P emitted %T carrying the address of the idle database %s", e, short(addr))
				}
			default:
				return
			}
		}
	}
	k.Invariant = func() {
		if wireErr != nil {
			v := *wireErr
			k.Failf(v.Signature, "%s", v.Detail)
		}
		drain(sub.Out())
		if cur := snap(); cur != idleSnap {
			k.Failf("C09/idle/changed", "the idle database %s on P changed while only other databases were used:\n before: %s\n after:  %s", short(idle.addr), idleSnap, cur)
		}
	}
	// ---- workload on the non-idle databases ----
	nops := k.C.Range(4, 14)
	if Tier == "thorough" {
		nops = k.C.Range(4, 36)
	}
	k.F = swarmFaults(k, true)
	wseq := 0
	writesOnP, replIntoP := 0, 0
	active := map[string]bool{}
	acked := map[string][]string{}
	var hostile *Adversary
	for i := 0; i < nops; i++ {
		db := dbs[k.C.Intn(ndb)]
		if db.idle {
			continue
		}
		var holders []int
		for pi := 0; pi < np; pi++ {
			if db.stores[pi] != nil {
				holders = append(holders, pi)
			}
		}
		pi := holders[k.C.Intn(len(holders))]
		st := db.stores[pi]
		if k.C.Chance(1, 4) {
			// writes on several databases of one instance at the same time (their events
			// share the instance's bus, their announcements are prepared concurrently)
			var ops []*Op
			var odbs []*c09db
			// a third of these rounds run on a healthy network (all links up and the membership
			// settled before, no drops, reordering or stalls during and after): every peer that
			// holds one of the databases then learns of each of these writes from the
			// announcements alone, without any later head exchange
			healthy := k.C.Chance(1, 3)
			savedF := k.F
			if healthy {
				for x := 0; x < np; x++ {
					for y := x + 1; y < np; y++ {
						k.Heal(x, y)
					}
				}
				k.F = BenignCfg()
				k.Settle(8*time.Second, 400, nil)
				k.F = BenignCfg()
				k.W.Stat("writes-on-several-databases-on-a-healthy-network")
			}
			// one writer per database, or (half the time) two: more announcements prepared
			// at the same moment through what the instance's stores share
			per := k.C.Range(1, 2)
			for _, d2 := range dbs {
				if d2.idle || d2.stores[pi] == nil {
					continue
				}
				d2 := d2
				st2 := d2.stores[pi]
				for w := 0; w < per; w++ {
					wseq++
					val := fmt.Sprintf("w%d.%d", pi, wseq)
					ops = append(ops, k.Go(pi, fmt.Sprintf("write %s %s", short(d2.addr), val), func() (interface{}, error) {
						ctx, cancel := OpCtx(60 * time.Second)
						defer cancel()
						return c09Write(ctx, st2, val)
					}))
					odbs = append(odbs, d2)
				}
			}
			k.Wait()
			for j := 0; j < 40; j++ {
				done := true
				for _, o := range ops {
					done = done && k.IsDone(o)
				}
				if done {
					break
				}
				k.Step()
			}
			for j, o := range ops {
				if k.IsDone(o) && o.Err == nil {
					active[odbs[j].addr] = true
					if pi == 0 {
						writesOnP++
					}
					if w, ok := o.Val.(operation.Operation); ok && w != nil {
						acked[odbs[j].addr] = append(acked[odbs[j].addr], w.GetEntry().GetHash().String())
					}
				}
			}
			k.W.Stat("writes-on-several-databases-at-once")
			if healthy {
				k.Settle(30*time.Second, 1500, nil)
				for j, o := range ops {
					if !(k.IsDone(o) && o.Err == nil) {
						continue
					}
					w, ok := o.Val.(operation.Operation)
					if !ok || w == nil {
						continue
					}
					h := w.GetEntry().GetHash().String()
					for q := 0; q < np; q++ {
						if q == pi || odbs[j].stores[q] == nil {
							continue
						}
						if !LogHashSet(odbs[j].stores[q])[h] {
							rs, _ := ReplStats(odbs[j].stores[q])
							k.Failf("C09/announcement-lost", "on a healthy network peer %d wrote %s to %s while %d writes on databases of its instance were under way at once; 30 virtual seconds later peer %d, which holds that database, has not got the entry (replicator %+v; pending=%v)", pi, EntryName(w.GetEntry()), short(odbs[j].addr), len(ops), q, rs, k.PendingDesc())
						}
					}
				}
				k.F = savedF
			}
			k.Steps(k.C.Intn(8))
			continue
		}
		if st0 := db.stores[0]; st0 != nil && len(holders) > 1 && k.C.Chance(1, 4) {
			// a snapshot of a non-idle database saved while its replicator has unfinished
			// work (the queue goes into the snapshot), then loaded back into the same store:
			// the queued hashes are handed to the replicator again as bare hashes
			failFirst := k.C.Chance(1, 2) // the unfinished work is a fetch that failed (and is over)
			busy := func() bool {
				rs, ok := ReplStats(st0)
				if failFirst {
					return ok && rs.Failed > 0 && rs.Queued+rs.Added+rs.Fetching == 0
				}
				return ok && rs.Queued+rs.Added+rs.Fetching > 0
			}
			if !busy() && len(holders) > 1 {
				// somebody else writes; the announcement gets through, the blocks do not yet
				q := holders[1+k.C.Intn(len(holders)-1)]
				if q == 0 {
					q = holders[0]
				}
				if q != 0 {
					// 2-3 writes while the link is cut (announcements lost): after the heal the
					// head comes with the head exchange, what lies between it and the
					// receiver's log has to be fetched
					holdBefore := k.W.HoldOnCut
					k.W.HoldOnCut = false
					k.Cut(0, q)
					for wn, wm := 0, k.C.Range(2, 3); wn < wm; wn++ {
						wseq++
						val := fmt.Sprintf("w%d.%d", q, wseq)
						sq := db.stores[q]
						wop := k.Do(q, fmt.Sprintf("write %s %s", short(db.addr), val), 20, func() (interface{}, error) {
							ctx, cancel := OpCtx(60 * time.Second)
							defer cancel()
							return c09Write(ctx, sq, val)
						})
						if wop.Done && wop.Err == nil {
							active[db.addr] = true
							if o, ok := wop.Val.(operation.Operation); ok && o != nil {
								acked[db.addr] = append(acked[db.addr], o.GetEntry().GetHash().String())
								if failFirst {
									k.W.mu.Lock()
									k.W.FailWant[o.GetEntry().GetHash().String()] = 2
									k.W.mu.Unlock()
								}
							}
						}
					}
					saved := k.F
					k.F = FaultCfg{Refresh: 5, Tick: 1}
					k.Steps(8)
					k.Tick(2500 * time.Millisecond)
					k.Steps(8)
					k.Heal(0, q)
					k.W.HoldOnCut = holdBefore
					k.F = FaultCfg{Deliver: 5, Refresh: 3, Tick: 1}
					if failFirst {
						k.F.Serve = 4
					}
					for j := 0; j < 250 && !busy(); j++ {
						k.Step()
					}
					k.F = saved
				}
			}
			if busy() {
				sop := k.Do(0, "save-snapshot", 100, func() (interface{}, error) {
					ctx, cancel := OpCtx(2 * time.Minute)
					defer cancel()
					return basestore.SaveSnapshot(ctx, st0)
				})
				if sop.Done && sop.Err == nil {
					k.Do(0, "load-from-snapshot", 200, func() (interface{}, error) {
						ctx, cancel := OpCtx(5 * time.Minute)
						defer cancel()
						return nil, st0.LoadFromSnapshot(ctx)
					})
					k.W.Stat("snapshot-with-queue-loaded-beside-idle-database")
				}
				k.Steps(k.C.Intn(8))
				continue
			}
		}
		if st0 := db.stores[0]; st0 != nil && len(LogValues(st0)) > 0 && k.C.Chance(1, 6) {
			// somebody on the pairwise channel with P sends a head exchange for this database
			// that P refuses with an error (a real head of its log under the address of
			// another block: write access and signature hold, the hash does not match). What
			// comes on the direct channel afterwards, for this or any other database of P,
			// is handled as before: a peer that wrote while it was cut off is heard after the
			// heal through the head exchange alone
			if hostile == nil {
				hostile = k.NewAdversary()
			}
			hostile.Engage(peers[0], st0)
			if real, ok := st0.OpLog().Heads().Slice()[0].(*entry.Entry); ok {
				twin := *real
				twin.Hash = hostile.lastCID()
				hostile.Deliver("direct", peers[0], st0, &twin)
				k.W.Stat("refused-exchange-for-one-database-on-direct-channel")
				k.Steps(k.C.Range(2, 8))
				// another database P shares with some peer q (this one if there is no other)
				var cands []*c09db
				for _, d2 := range dbs {
					if !d2.idle && d2 != db && d2.stores[0] != nil {
						for q := 1; q < np; q++ {
							if d2.stores[q] != nil {
								cands = append(cands, d2)
								break
							}
						}
					}
				}
				d2 := db
				if len(cands) > 0 {
					d2 = cands[k.C.Intn(len(cands))]
				}
				for q := 1; q < np; q++ {
					sq := d2.stores[q]
					if sq == nil {
						continue
					}
					holdBefore := k.W.HoldOnCut
					k.W.HoldOnCut = false
					k.Cut(0, q)
					wseq++
					val := fmt.Sprintf("w%d.%d", q, wseq)
					wop := k.Do(q, fmt.Sprintf("write %s %s", short(d2.addr), val), 20, func() (interface{}, error) {
						ctx, cancel := OpCtx(60 * time.Second)
						defer cancel()
						return c09Write(ctx, sq, val)
					})
					if wop.Done && wop.Err == nil {
						active[d2.addr] = true
						if o, ok := wop.Val.(operation.Operation); ok && o != nil {
							acked[d2.addr] = append(acked[d2.addr], o.GetEntry().GetHash().String())
						}
					}
					saved := k.F
					k.F = FaultCfg{Refresh: 5, Tick: 1}
					k.Steps(8)
					k.Tick(2500 * time.Millisecond)
					k.Steps(8)
					k.Heal(0, q)
					k.W.HoldOnCut = holdBefore
					k.F = saved
					break
				}
			}
			k.Steps(k.C.Intn(8))
			continue
		}
		if k.C.Chance(1, 8) && pi == 0 {
			k.Do(0, "load", 200, func() (interface{}, error) {
				ctx, cancel := OpCtx(5 * time.Minute)
				defer cancel()
				return nil, st.Load(ctx, -1)
			})
			continue
		}
		wseq++
		val := fmt.Sprintf("w%d.%d", pi, wseq)
		op := k.Do(pi, fmt.Sprintf("write %s %s", short(db.addr), val), 20, func() (interface{}, error) {
			ctx, cancel := OpCtx(60 * time.Second)
			defer cancel()
			return c09Write(ctx, st, val)
		})
		if op.Done && op.Err == nil {
			active[db.addr] = true
			if pi == 0 {
				writesOnP++
			}
			if o, ok := op.Val.(operation.Operation); ok && o != nil {
				acked[db.addr] = append(acked[db.addr], o.GetEntry().GetHash().String())
			}
		}
		k.Steps(k.C.Intn(8))
	}
	k.Settle(90*time.Second, 3000, nil)
	// each database, taken alone, still gets everywhere: once writes have stopped and all
	// peers are reconnected, every holder of a database has every acknowledged write of it,
	// whatever the other databases of the same instances went through meanwhile
	k.W.FailWant = map[string]int{}
	k.ReconnectAll(np, 180*time.Second, 6000, func() bool {
		for _, db := range dbs {
			for _, st := range db.stores {
				if st != nil && !ReplicatorIdle(st) {
					return false
				}
			}
		}
		return true
	})
	for _, db := range dbs {
		for pi := 0; pi < np; pi++ {
			st := db.stores[pi]
			if st == nil {
				continue
			}
			have := LogHashSet(st)
			for _, h := range acked[db.addr] {
				if !have[h] {
					rs, _ := ReplStats(st)
					k.Failf("C09/db-starved", "after writes stopped and all peers were reconnected, peer %d still lacks an acknowledged entry of database %s (%d of %d held; replicator %+v) while it holds %d other database(s)", pi, short(db.addr), len(have), len(acked[db.addr]), rs, len(dbs)-1)
				}
			}
		}
	}
	for _, db := range dbs {
		if st := db.stores[0]; st != nil && !db.idle {
			for _, e := range LogValues(st) {
				if e.GetIdentity().ID != ids[0] {
					replIntoP++
				}
			}
		}
	}
	k.Notes["active_dbs"] = len(active)
	k.Notes["writes_on_P"] = writesOnP
	k.Notes["replicated_into_P"] = replIntoP
	k.Notes["nontrivial"] = len(active) >= 1 && ndb >= 2 && writesOnP > 0 && replIntoP > 0
	for _, p := range peers {
		k.StopPeer(p)
	}
}

func c09Write(ctx context.Context, st iface.Store, val string) (operation.Operation, error) {
	switch s := st.(type) {
	case iface.KeyValueStore:
		return s.Put(ctx, "k", []byte(val))
	case iface.EventLogStore:
		return s.Add(ctx, []byte(val))
	case iface.DocumentStore:
		return s.Put(ctx, map[string]interface{}{"_id": "k", "v": val})
	}
	return nil, fmt.Errorf("unknown store type")
}

func short(addr string) string {
	if i := strings.LastIndex(addr, "/"); i >= 0 && len(addr) > 20 {
		return "…" + addr[len(addr)-12:]
	}
	return addr
}

var _ event.Subscription

func init() {
	Register(&Scenario{Prop: "C09", Name: "restore-beside-idle", Run: scenC09Restore, Weight: 1,
		Rule: "instance P with databases A (fed by peer Q) and B (idle, with a few entries of its own); A's snapshot is saved while P's replicator for A has unfinished work (link cut, 2-4 writes on Q, heal, fetches withheld or failed), P is closed and started again on its directory, A and B are opened, A is filled with LoadFromSnapshot (the saved queue goes to the fresh replicator as bare hashes) while B is watched; oracle: no store event on P's bus carries B's address, B's log, replication status and cached heads do not change; non-trivial = the snapshot's queue was not empty"})
}

func scenC09Restore(k *K) {
	pn := k.W.AddNode()
	P, err := k.StartPeer(pn)
	if err != nil {
		panic(abortPanic{err.Error()})
	}
	Q, err := k.StartPeer(k.W.AddNode())
	if err != nil {
		panic(abortPanic{err.Error()})
	}
	ids := []string{P.DB.Identity().ID, Q.DB.Identity().ID}
	types := []string{"keyvalue", "eventlog", "docstore"}
	mk := func(name string) iface.Store {
		typ := types[k.C.Intn(3)]
		op := k.Do(0, "create "+name, 50, func() (interface{}, error) {
			ctx, cancel := OpCtx(time.Minute)
			defer cancel()
			return P.DB.Create(ctx, name, typ, &orbitdb.CreateDBOptions{AccessController: WriteACL(ids...)})
		})
		if !op.Done || op.Err != nil {
			panic(abortPanic{fmt.Sprint(op.Err)})
		}
		return op.Val.(iface.Store)
	}
	a, b := mk("a"), mk("b")
	addrA, addrB := a.Address().String(), b.Address().String()
	oq := k.Do(1, "open", 400, func() (interface{}, error) {
		ctx, cancel := OpCtx(10 * time.Minute)
		defer cancel()
		return Q.DB.Open(ctx, addrA, nil)
	})
	if !oq.Done || oq.Err != nil {
		panic(abortPanic{fmt.Sprint(oq.Err)})
	}
	qa := oq.Val.(iface.Store)
	wseq := 0
	write := func(node int, st iface.Store) {
		wseq++
		val := fmt.Sprintf("w%d.%d", node, wseq)
		k.Do(node, "write "+val, 20, func() (interface{}, error) {
			ctx, cancel := OpCtx(time.Minute)
			defer cancel()
			return c09Write(ctx, st, val)
		})
	}
	for j, m := 0, k.C.Range(0, 3); j < m; j++ {
		write(0, b)
	}
	for j, m := 0, k.C.Range(0, 2); j < m; j++ {
		write(0, a)
	}
	k.Settle(30*time.Second, 1500, nil)
	// ---- unfinished work in P's replicator for A ----
	k.W.HoldOnCut = false
	k.Cut(0, 1)
	failFirst := k.C.Chance(1, 2)
	for j, m := 0, k.C.Range(2, 4); j < m; j++ {
		write(1, qa)
	}
	if failFirst {
		k.W.mu.Lock()
		for _, e := range LogValues(qa) {
			k.W.FailWant[e.GetHash().String()] = 2
		}
		k.W.mu.Unlock()
	}
	k.F = FaultCfg{Refresh: 5, Tick: 1}
	k.Steps(8)
	k.Tick(2500 * time.Millisecond)
	k.Steps(8)
	k.Heal(0, 1)
	k.F = FaultCfg{Deliver: 5, Refresh: 3, Tick: 1}
	if failFirst {
		k.F.Serve = 4
	}
	unfinished := func() bool {
		rs, ok := ReplStats(a)
		if !ok {
			return false
		}
		if failFirst {
			return rs.Failed > 0 && rs.Queued+rs.Added+rs.Fetching == 0
		}
		return rs.Queued+rs.Added+rs.Fetching > 0
	}
	for j := 0; j < 250 && !unfinished(); j++ {
		k.Step()
	}
	queued := unfinished()
	sop := k.Do(0, "save-snapshot", 100, func() (interface{}, error) {
		ctx, cancel := OpCtx(2 * time.Minute)
		defer cancel()
		return basestore.SaveSnapshot(ctx, a)
	})
	if !sop.Done || sop.Err != nil {
		k.Notes["nontrivial"] = false
		k.StopPeer(P)
		k.StopPeer(Q)
		return
	}
	// ---- restart of P, both databases opened again ----
	k.F = BenignCfg()
	cop := k.StopPeer(P)
	k.Wait()
	for j := 0; j < 200 && !k.IsDone(cop); j++ {
		k.Step()
	}
	k.W.Detach(P.Inc)
	k.W.mu.Lock()
	k.W.FailWant = map[string]int{}
	k.W.mu.Unlock()
	P2, err := k.StartPeer(pn)
	if err != nil {
		k.Failf("C09/restart-error", "%v", err)
	}
	reopen := func(addr string) iface.Store {
		op := k.Do(0, "reopen", 400, func() (interface{}, error) {
			ctx, cancel := OpCtx(10 * time.Minute)
			defer cancel()
			return P2.DB.Open(ctx, addr, nil)
		})
		if !op.Done || op.Err != nil {
			k.Failf("C09/restart-error", "reopen of %s: done=%v err=%v", short(addr), op.Done, op.Err)
		}
		return op.Val.(iface.Store)
	}
	b2 := reopen(addrB)
	lop := k.Do(0, "load b", 200, func() (interface{}, error) {
		ctx, cancel := OpCtx(5 * time.Minute)
		defer cancel()
		return nil, b2.Load(WithOfflineReads(ctx), -1)
	})
	if !lop.Done || lop.Err != nil {
		k.Failf("C09/restart-error", "Load of the idle database: done=%v err=%v", lop.Done, lop.Err)
	}
	a2 := reopen(addrA)
	k.Settle(30*time.Second, 1500, nil)
	var evTypes []interface{}
	evTypes = append(evTypes, stores.Events...)
	sub, err := P2.DB.EventBus().Subscribe(evTypes, eventbus.BufSize(16384))
	if err != nil {
		panic(abortPanic{"subscribe: " + err.Error()})
	}
	k.cleanups = append(k.cleanups, func() { sub.Close() })
	snap := func() string {
		sp := spaceForAddress(P2.Node.Disk, addrB)
		lh, _ := P2.Node.Disk.CacheGet(sp, "/_localHeads")
		rh, _ := P2.Node.Disk.CacheGet(sp, "/_remoteHeads")
		return fmt.Sprintf("log=%v progress=%d max=%d localHeads=%x remoteHeads=%x", LogHashSeq(b2), b2.ReplicationStatus().GetProgress(), b2.ReplicationStatus().GetMax(), lh, rh)
	}
	before := snap()
	k.Invariant = func() {
		for {
			select {
			case e := <-sub.Out():
				addr := ""
				switch ev := e.(type) {
				case stores.EventWrite:
					addr = ev.Address.String()
				case stores.EventReplicated:
					addr = ev.Address.String()
				case stores.EventReplicateProgress:
					addr = ev.Address.String()
				case stores.EventReplicate:
					addr = ev.Address.String()
				case stores.EventLoad:
					addr = ev.Address.String()
				case stores.EventReady:
					addr = ev.Address.String()
				}
				if addr == addrB {
					k.Failf("C09/idle/event", "while database A was restored from its snapshot, P emitted %T carrying the address of the idle database B", e)
				}
				continue
			default:
			}
			break
		}
		if cur := snap(); cur != before {
			k.Failf("C09/idle/changed", "the idle database B changed while database A was restored from its snapshot:\n before: %s\n after:  %s", before, cur)
		}
	}
	rop := k.Do(0, "load-from-snapshot", 300, func() (interface{}, error) {
		ctx, cancel := OpCtx(5 * time.Minute)
		defer cancel()
		return nil, a2.LoadFromSnapshot(ctx)
	})
	if !rop.Done {
		k.Failf("C09/restore-hang", "LoadFromSnapshot of A did not return")
	}
	k.Settle(60*time.Second, 2500, nil)
	k.Wait()
	k.Invariant = nil
	k.Notes["queued"] = queued
	k.Notes["nontrivial"] = queued
	k.StopPeer(P2)
	k.StopPeer(Q)
}
