package sim

import (
	"errors"
	"fmt"
	"sort"
	"testing/synctest"
	"time"
)

// Violation is how a scenario reports that the property does not hold.
type Violation struct {
	Signature string `json:"signature"`
	Detail    string `json:"detail"`
}

type violationPanic struct{ v Violation }

// FaultCfg is the per-run (swarm) configuration of the network-level adversary. Weights are
// relative; 0 disables the kind.
type FaultCfg struct {
	Deliver    int // deliver the oldest enabled message (FIFO)
	Serve      int // serve the oldest enabled want
	Refresh    int // propagate the oldest pending membership change
	Tick       int // advance virtual time by a small irregular quantum
	Reorder    int // deliver a random enabled message (overtaking)
	ServeAny   int // serve a random enabled want (fetch completion order)
	Drop       int // drop a random pending message
	Dup        int // duplicate a random pending message
	Cut        int // cut a random link
	Heal       int // heal a random cut link
	Jump       int // advance virtual time by 10..120 s
	Release    int // release one goroutine parked at a hook
	Stream     int // move a chunk of bytes (or EOF) on a simulated libp2p stream
	FailFetch  int // a pending block fetch (served or not) fails with an I/O error
	Burst      int // 2-3 enabled deliveries / fetch completions in one quantum (their handlers run concurrently)
	CancelRace int // a block fetch completes and the request it belongs to is cancelled in the same quantum
}

func BenignCfg() FaultCfg { return FaultCfg{Deliver: 6, Serve: 6, Refresh: 4, Tick: 2, Stream: 6} }

// cancellable: the cancel function of a request context issued by the harness on a node.
type cancellable struct {
	node   int
	cancel func()
	used   bool
}

// RegisterCancel makes a request's cancellation available to the CancelRace action.
func (k *K) RegisterCancel(node int, cancel func()) {
	k.cancels = append(k.cancels, &cancellable{node: node, cancel: cancel})
}

type Extra struct {
	Name   string
	Weight func() int
	Run    func()
}

type K struct {
	// AlwaysPark: schedule points that park for the whole run, whatever InstallHooks is given
	AlwaysPark func(point string, owner interface{}) bool
	W          *World
	C          *Chooser
	F          FaultCfg
	Extras     []*Extra
	Ops        []*Op
	opSeq      int
	MaxSteps   int
	Notes      map[string]interface{}
	// Invariant, when set, runs at every quiescent point.
	Invariant     func()
	lastFaultStep int
	inInv         bool
	draining      bool
	cancels       []*cancellable
	cleanups      []func()
	// PostRun checks run after the bubble has ended, on the real clock (e.g. porcupine)
	PostRun  []func() *Violation
	evSeq    int64
	noBubble bool
}

func NewK(c *Chooser) *K {
	return &K{W: NewWorld(), C: c, F: BenignCfg(), MaxSteps: 20000, Notes: map[string]interface{}{}}
}

func (k *K) Failf(sig, f string, a ...interface{}) {
	panic(violationPanic{Violation{Signature: sig, Detail: fmt.Sprintf(f, a...)}})
}

// Wait blocks until every SUT goroutine is durably blocked, then runs the invariant. If
// goroutines stalled by the kernel (soft parks) remain, the kernel first goes on taking
// actions until they have all sat out their quanta: a stall spans kernel actions (that is
// its point), but whoever calls Wait - scenarios, helpers, oracles - sees a world in which
// no goroutine sits between two of its statements.
func (k *K) Wait() {
	k.waitRaw()
	if !k.draining {
		k.draining = true
		for n := 0; n < 200 && k.softPending() > 0; n++ {
			k.stepOnce()
			k.waitRaw()
		}
		if k.softPending() > 0 {
			k.releaseSoft()
			k.waitRaw()
		}
		k.draining = false
	}
	if k.Invariant != nil && !k.inInv && k.softPending() == 0 {
		k.inInv = true
		k.Invariant()
		k.inInv = false
	}
}

// waitRaw: quiescence, and one quantum counted down for every stalled goroutine.
func (k *K) waitRaw() {
	kernelBlock(synctest.Wait)
	for k.W.softTick() {
		kernelBlock(synctest.Wait)
	}
}

var choiceLogFlush func()

func (k *K) bump() {
	if choiceLogFlush != nil {
		choiceLogFlush()
	}
	k.W.mu.Lock()
	k.W.step++
	s := k.W.step
	k.W.mu.Unlock()
	if s > k.MaxSteps {
		panic(abortPanic{"step budget exhausted"})
	}
}

type abortPanic struct{ why string }

// Tick advances virtual time.
func (k *K) Tick(d time.Duration) {
	k.Wait()
	k.bump()
	k.W.mu.Lock()
	k.W.tr("tick %v", d)
	k.W.mu.Unlock()
	kernelSleep(d)
	k.Wait()
}

func (k *K) smallQuantum() time.Duration {
	// irregular quanta (µs granularity) so unrelated timers do not share an instant; the
	// recorded value 0 is the longest quantum, so that a run whose choices have run out (a
	// truncated replay, a lazy-kernel tail) still lets every periodic timer fire
	if softEvery > 0 {
		return time.Duration(101000-k.C.Intn(100000)) * time.Microsecond
	}
	return time.Duration(1501000-k.C.Intn(1500000)) * time.Microsecond
}

// Step performs exactly one kernel action chosen from the enabled set by the run's weights.
// It returns the category name ("" if nothing but time could happen).
func (k *K) Step() string {
	k.Wait()
	return k.act()
}

// stepOnce is Step without draining stalls first (used by the drain itself).
func (k *K) stepOnce() string {
	k.waitRaw()
	return k.act()
}

func (k *K) act() string {
	k.bump()
	w := k.W
	w.mu.Lock()
	msgsEn := w.sortedPendingLocked(pkMsg, true)
	msgsAll := w.sortedPendingLocked(pkMsg, false)
	wantsEn := w.sortedPendingLocked(pkWant, true)
	refr := w.sortedPendingLocked(pkRefresh, true)
	var wantsLive []*Pend
	if k.F.FailFetch > 0 {
		for _, p := range w.sortedPendingLocked(pkWant, false) {
			if p.inc.live() {
				wantsLive = append(wantsLive, p)
			}
		}
	}
	var cuts, links [][2]int
	for i := range w.Nodes {
		for j := i + 1; j < len(w.Nodes); j++ {
			if w.cut[lk(i, j)] {
				cuts = append(cuts, [2]int{i, j})
			} else {
				links = append(links, [2]int{i, j})
			}
		}
	}
	nparks := len(w.parks)
	var streams []*SimStream
	for _, st := range w.streams {
		if st.pendingWork() {
			streams = append(streams, st)
		}
	}
	w.mu.Unlock()

	ws := []int{
		cond(len(msgsEn) > 0, k.F.Deliver),
		cond(len(wantsEn) > 0, k.F.Serve),
		cond(len(refr) > 0, k.F.Refresh),
		k.F.Tick,
		cond(len(msgsEn) > 1, k.F.Reorder),
		cond(len(wantsEn) > 1, k.F.ServeAny),
		cond(len(msgsAll) > 0, k.F.Drop),
		cond(len(msgsAll) > 0, k.F.Dup),
		cond(len(links) > 0, k.F.Cut),
		cond(len(cuts) > 0, k.F.Heal),
		cond(softEvery == 0, k.F.Jump), // no clock jumps while goroutines may be stalled: deadlines are not the subject
		cond(nparks > 0, k.F.Release),
		cond(len(streams) > 0, k.F.Stream),
		cond(len(wantsLive) > 0, k.F.FailFetch),
		cond(len(msgsEn)+len(wantsEn) > 1, k.F.Burst),
		cond(len(k.raceCandidates(wantsEn)) > 0, k.F.CancelRace),
	}
	base := len(ws)
	for _, e := range k.Extras {
		ws = append(ws, e.Weight())
	}
	cat := k.C.Weighted(ws)
	if cat < 0 {
		cat = 3
	}
	if cat >= base {
		e := k.Extras[cat-base]
		w.mu.Lock()
		w.tr("x:%s", e.Name)
		w.mu.Unlock()
		e.Run()
		return e.Name
	}
	switch cat {
	case 0:
		k.execPend(msgsEn[0], "deliver")
		return "deliver"
	case 1:
		k.execPend(wantsEn[0], "serve")
		return "serve"
	case 2:
		k.execPend(refr[0], "refresh")
		return "refresh"
	case 3:
		d := k.smallQuantum()
		w.mu.Lock()
		w.tr("tick %v", d)
		w.mu.Unlock()
		kernelSleep(d)
		return "tick"
	case 4:
		i := k.C.Intn(len(msgsEn))
		if i > 0 {
			w.Stat("reorder")
			k.lastFaultStep = w.step
		}
		k.execPend(msgsEn[i], "deliver")
		return "reorder"
	case 5:
		i := k.C.Intn(len(wantsEn))
		if i > 0 {
			w.Stat("serve-reorder")
		}
		k.execPend(wantsEn[i], "serve")
		return "serveany"
	case 6:
		p := msgsAll[k.C.Intn(len(msgsAll))]
		w.mu.Lock()
		w.removePendLocked(p)
		w.tr("drop %s", p)
		w.stat("drop")
		w.mu.Unlock()
		k.lastFaultStep = w.step
		return "drop"
	case 7:
		p := msgsAll[k.C.Intn(len(msgsAll))]
		w.mu.Lock()
		q := *p
		q.dup = true
		w.pseq++
		q.pseq = w.pseq
		w.pending = append(w.pending, &q)
		w.tr("dup %s", p)
		w.stat("dup")
		w.mu.Unlock()
		k.lastFaultStep = w.step
		return "dup"
	case 8:
		l := links[k.C.Intn(len(links))]
		k.Cut(l[0], l[1])
		return "cut"
	case 9:
		l := cuts[k.C.Intn(len(cuts))]
		k.Heal(l[0], l[1])
		return "heal"
	case 10:
		d := time.Duration(10+k.C.Intn(111))*time.Second + time.Duration(k.C.Intn(1000))*time.Microsecond
		w.mu.Lock()
		w.tr("jump %v", d)
		w.stat("jump")
		w.mu.Unlock()
		kernelSleep(d)
		return "jump"
	case 11:
		k.ReleaseOne(k.C.Intn(nparks))
		return "release"
	case 12:
		st := streams[k.C.Intn(len(streams))]
		k.StreamChunk(st, []int{1 << 30, 1 << 30, 4096, 100, 7}[k.C.Intn(5)])
		return "stream"
	case 13:
		p := wantsLive[k.C.Intn(len(wantsLive))]
		w.mu.Lock()
		w.removePendLocked(p)
		w.tr("fail-fetch %s", p)
		w.stat("fetch-failed")
		p.done <- errors.New("sim: injected fetch failure (i/o error)")
		w.mu.Unlock()
		k.lastFaultStep = w.step
		return "failfetch"
	case 14:
		all := append(append([]*Pend(nil), msgsEn...), wantsEn...)
		n := 2 + k.C.Intn(2)
		w.mu.Lock()
		for i := 0; i < n && len(all) > 0; i++ {
			j := k.C.Intn(len(all))
			p := all[j]
			all = append(all[:j:j], all[j+1:]...)
			verb := "deliver"
			if p.kind == pkWant {
				verb = "serve"
			}
			w.tr("burst-%s %s", verb, p)
			w.stat(verb)
			w.execLocked(p)
		}
		w.stat("burst")
		w.mu.Unlock()
		return "burst"
	case 15:
		cand := k.raceCandidates(wantsEn)
		p := cand[k.C.Intn(len(cand))]
		var c *cancellable
		for _, x := range k.cancels {
			if !x.used && x.node == p.src {
				c = x
			}
		}
		w.mu.Lock()
		w.tr("serve+cancel %s", p)
		w.stat("serve")
		w.stat("cancel-races-completion")
		w.execLocked(p)
		w.mu.Unlock()
		c.used = true
		c.cancel()
		k.lastFaultStep = w.step
		return "cancelrace"
	}
	return ""
}

// raceCandidates: enabled fetches of nodes that have a not yet cancelled harness request.
func (k *K) raceCandidates(wantsEn []*Pend) []*Pend {
	if k.F.CancelRace == 0 {
		return nil
	}
	var out []*Pend
	for _, p := range wantsEn {
		for _, x := range k.cancels {
			if !x.used && x.node == p.src {
				out = append(out, p)
				break
			}
		}
	}
	return out
}

func cond(b bool, w int) int {
	if b {
		return w
	}
	return 0
}

func (k *K) execPend(p *Pend, verb string) {
	w := k.W
	w.mu.Lock()
	w.tr("%s %s", verb, p)
	w.stat(verb)
	w.execLocked(p)
	w.mu.Unlock()
}

func (k *K) Cut(a, b int) {
	k.W.mu.Lock()
	k.W.tr("cut %d-%d", a, b)
	k.W.stat("cut")
	k.W.mu.Unlock()
	k.W.SetCut(a, b, true)
	k.lastFaultStep = k.W.step
}

func (k *K) Heal(a, b int) {
	k.W.mu.Lock()
	k.W.tr("heal %d-%d", a, b)
	k.W.stat("heal")
	k.W.mu.Unlock()
	k.W.SetCut(a, b, false)
}

// Steps runs n kernel steps.
func (k *K) Steps(n int) {
	for i := 0; i < n; i++ {
		k.Step()
	}
}

// PendingCount reports pending kernel-owned effects (enabled ones and all).
func (k *K) PendingCount() (enabled, all int) {
	w := k.W
	w.mu.Lock()
	defer w.mu.Unlock()
	for _, p := range w.pending {
		all++
		if w.enabledLocked(p) {
			enabled++
		}
	}
	return
}

func (k *K) PendingDesc() []string {
	w := k.W
	w.mu.Lock()
	defer w.mu.Unlock()
	var out []string
	for _, p := range w.pending {
		out = append(out, fmt.Sprintf("%s enabled=%v", p, w.enabledLocked(p)))
	}
	sort.Strings(out)
	return out
}

// Settle runs fault-free until the world is at rest: no enabled pending effect, no client
// operation in flight and (if given) idle() true, stable for `quiet` consecutive virtual
// seconds; or until the virtual-time / step budget is exhausted. Returns whether rest was
// reached. FIFO vs random order of benign actions is still chosen by the run.
func (k *K) Settle(maxVirtual time.Duration, maxSteps int, idle func() bool) bool {
	saved := k.F
	k.F = FaultCfg{Deliver: saved.Deliver, Serve: saved.Serve, Refresh: saved.Refresh, Reorder: saved.Reorder, ServeAny: saved.ServeAny, Release: saved.Release, Stream: saved.Stream}
	if k.F.Stream == 0 {
		k.F.Stream = 4
	}
	if k.F.Deliver == 0 {
		k.F.Deliver = 4
	}
	if k.F.Serve == 0 {
		k.F.Serve = 4
	}
	if k.F.Refresh == 0 {
		k.F.Refresh = 4
	}
	if k.F.Release == 0 {
		k.F.Release = 4
	}
	defer func() { k.F = saved }()
	// stalls are faults too: none is started while the world settles, those under way end
	softSuspended = true
	defer func() { softSuspended = false }()
	k.releaseSoft()
	start := time.Now()
	quiet := 0
	for s := 0; s < maxSteps && time.Since(start) < maxVirtual; s++ {
		k.Wait()
		en, _ := k.PendingCount()
		k.W.mu.Lock()
		np := len(k.W.parks) + len(k.W.soft)
		k.W.mu.Unlock()
		if en == 0 && np == 0 && len(k.activeStreams()) == 0 {
			if k.opsInFlight() == 0 && (idle == nil || idle()) {
				quiet++
				if quiet >= 4 {
					return true
				}
			} else {
				quiet = 0
			}
			k.bump()
			d := 1100*time.Millisecond + time.Duration(k.C.Intn(1000))*time.Microsecond
			k.W.mu.Lock()
			k.W.tr("rest-tick %v", d)
			k.W.mu.Unlock()
			kernelSleep(d)
			continue
		}
		quiet = 0
		k.Step()
	}
	return false
}

// ReconnectAll: the final phase of a liveness check. Every link among nodes 0..n-1 is cut long
// enough for every membership poller to notice, then healed (each side sees the other join,
// which is what triggers the head exchange), and the world settles fault-free.
func (k *K) ReconnectAll(n int, maxVirtual time.Duration, maxSteps int, idle func() bool) bool {
	k.F = BenignCfg()
	for a := 0; a < n; a++ {
		for b := a + 1; b < n; b++ {
			if !k.W.IsCut(a, b) {
				k.Cut(a, b)
			}
		}
	}
	for j := 0; j < 60; j++ {
		k.Step()
	}
	k.Tick(2500 * time.Millisecond)
	for j := 0; j < 40; j++ {
		if en, _ := k.PendingCount(); en == 0 {
			break
		}
		k.Step()
	}
	k.Tick(1500 * time.Millisecond)
	for a := 0; a < n; a++ {
		for b := a + 1; b < n; b++ {
			k.Heal(a, b)
		}
	}
	return k.Settle(maxVirtual, maxSteps, idle)
}

// ---------------- client operations ----------------

type Op struct {
	ID     int
	Name   string
	Node   int
	Invoke int // kernel step at invocation
	Return int // kernel step at return (valid when Done)
	Done   bool
	Err    error
	Val    interface{}
	EffAt  int   // number of effects on the node's disk when the op returned
	InvSeq int64 // global event sequence number at invocation (finer than kernel steps)
	RetSeq int64 // global event sequence number at return
	done   chan struct{}
}

// Go starts one client operation in its own goroutine (the kernel never waits inside it).
func (k *K) Go(node int, name string, f func() (interface{}, error)) *Op {
	k.opSeq++
	w := k.W
	w.mu.Lock()
	k.evSeq++
	op := &Op{ID: k.opSeq, Name: name, Node: node, Invoke: w.step, InvSeq: k.evSeq, done: make(chan struct{})}
	w.tr("op%d n%d %s", op.ID, node, name)
	w.mu.Unlock()
	k.Ops = append(k.Ops, op)
	go func() {
		v, err := f()
		w.mu.Lock()
		op.Val, op.Err = v, err
		op.Return = w.step
		k.evSeq++
		op.RetSeq = k.evSeq
		if node >= 0 && node < len(w.Nodes) {
			op.EffAt = len(w.Nodes[node].Disk.Effects)
		}
		op.Done = true
		w.mu.Unlock()
		close(op.done)
	}()
	return op
}

func (k *K) opsInFlight() int {
	k.W.mu.Lock()
	defer k.W.mu.Unlock()
	n := 0
	for _, o := range k.Ops {
		if !o.Done && !o.abandoned() {
			n++
		}
	}
	return n
}

func (o *Op) abandoned() bool { return false }

func (k *K) opsInFlightOn(node int) int {
	k.W.mu.Lock()
	defer k.W.mu.Unlock()
	n := 0
	for _, o := range k.Ops {
		if !o.Done && o.Node == node {
			n++
		}
	}
	return n
}

func (k *K) IsDone(o *Op) bool {
	k.W.mu.Lock()
	defer k.W.mu.Unlock()
	return o.Done
}

// Do runs an operation that needs no kernel help (purely local) and returns when it is done.
// If it is not done after a quiescence wait the kernel keeps stepping (fault-free choices
// come from the run's weights) up to maxSteps.
func (k *K) Do(node int, name string, maxSteps int, f func() (interface{}, error)) *Op {
	op := k.Go(node, name, f)
	k.Wait()
	for i, total := 0, 0; i < maxSteps && total < maxSteps+4000 && !k.IsDone(op); total++ {
		if k.softPending() == 0 {
			i++ // quanta spent while a goroutine is stalled by the kernel are not the operation's
		}
		k.Step()
		k.Wait()
	}
	return op
}

// ---------------- hook parks ----------------

type Park struct {
	ID     int
	Point  string
	Owner  interface{}
	ch     chan struct{}
	quanta int  // soft parks: kernel quanta left to sit out
	fresh  bool // soft parks: created during the current Wait, not counted down yet
}

// softPark stalls the calling SUT goroutine (which holds none of the repository's locks) for
// `quanta` kernel quanta: it blocks durably; the kernel goes on delivering, serving and
// releasing meanwhile. A long virtual timeout is the safety net should the kernel itself ever
// wait for something the stalled goroutine holds.
func (w *World) softPark(quanta int) {
	w.mu.Lock()
	w.parkSeq++
	p := &Park{ID: w.parkSeq, Point: "prelock", ch: make(chan struct{}), quanta: quanta, fresh: true}
	w.soft = append(w.soft, p)
	w.stat("soft-park")
	w.tr("stall g%d for %d quanta", p.ID, quanta)
	w.mu.Unlock()
	t := time.NewTimer(10 * time.Minute)
	select {
	case <-p.ch:
		t.Stop()
	case <-t.C:
		w.mu.Lock()
		for i, q := range w.soft {
			if q == p {
				w.soft = append(w.soft[:i:i], w.soft[i+1:]...)
			}
		}
		w.stat("soft-park-timeout")
		w.mu.Unlock()
	}
}

// softTick counts every stalled goroutine down by one quantum and resumes those that have sat
// theirs out; reports whether any was resumed (the caller then waits for quiescence again).
func (w *World) softTick() bool {
	w.mu.Lock()
	defer w.mu.Unlock()
	if len(w.soft) == 0 {
		return false
	}
	resumed := false
	var keep []*Park
	for _, p := range w.soft {
		if p.fresh {
			p.fresh = false
			keep = append(keep, p)
			continue
		}
		p.quanta--
		if p.quanta <= 0 {
			w.tr("resume g%d", p.ID)
			close(p.ch)
			resumed = true
			continue
		}
		keep = append(keep, p)
	}
	w.soft = keep
	return resumed
}

// releaseSoft resumes every stalled goroutine now.
func (k *K) releaseSoft() {
	w := k.W
	w.mu.Lock()
	ps := w.soft
	w.soft = nil
	for _, p := range ps {
		w.tr("resume g%d", p.ID)
		close(p.ch)
	}
	w.mu.Unlock()
	if len(ps) > 0 {
		kernelBlock(synctest.Wait)
	}
}

func (k *K) softPending() int {
	k.W.mu.Lock()
	defer k.W.mu.Unlock()
	return len(k.W.soft)
}

// ParkHere is installed as the yield function of the repository's verif hooks: the calling
// SUT goroutine blocks (durably, on a channel, holding no lock) until the kernel releases it.
func (w *World) ParkHere(point string, owner interface{}, want func(point string, owner interface{}) bool) {
	if want != nil && !want(point, owner) {
		return
	}
	w.mu.Lock()
	w.parkSeq++
	p := &Park{ID: w.parkSeq, Point: point, Owner: owner, ch: make(chan struct{})}
	w.parks = append(w.parks, p)
	w.stat("park:" + point)
	w.mu.Unlock()
	<-p.ch
}

func (k *K) Parks() []*Park {
	k.W.mu.Lock()
	defer k.W.mu.Unlock()
	return append([]*Park(nil), k.W.parks...)
}

func (k *K) ReleaseOne(i int) {
	w := k.W
	w.mu.Lock()
	if i >= len(w.parks) {
		w.mu.Unlock()
		return
	}
	p := w.parks[i]
	w.parks = append(w.parks[:i:i], w.parks[i+1:]...)
	w.tr("release park%d %s", p.ID, p.Point)
	w.mu.Unlock()
	close(p.ch)
}

func (k *K) ReleasePark(p *Park) {
	w := k.W
	w.mu.Lock()
	for i, q := range w.parks {
		if q == p {
			w.parks = append(w.parks[:i:i], w.parks[i+1:]...)
			w.tr("release park%d %s", p.ID, p.Point)
			w.mu.Unlock()
			close(p.ch)
			return
		}
	}
	w.mu.Unlock()
}

func (k *K) ReleaseAllParks() {
	for {
		ps := k.Parks()
		if len(ps) == 0 {
			return
		}
		for _, p := range ps {
			k.ReleasePark(p)
		}
		kernelBlock(synctest.Wait)
	}
}

// inKernel is true while the kernel goroutine executes its own code (including calls it makes
// into the system under test for oracle reads and local setup): inserted yield points are
// no-ops then, so that an oracle reads one consistent state. It is false exactly while the
// kernel is blocked in synctest.Wait or time.Sleep, i.e. while SUT goroutines run.
var inKernel bool

func kernelBlock(f func()) {
	// SUT goroutines run from here on and may take the process down: what has been drawn so
	// far goes to the choice log first
	if choiceLogFlush != nil {
		choiceLogFlush()
	}
	inKernel = false
	f()
	inKernel = true
}

func kernelSleep(d time.Duration) { kernelBlock(func() { time.Sleep(d) }) }
