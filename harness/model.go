package sim

import (
	"encoding/json"

	ipfslog "berty.tech/go-ipfs-log"
)

// The reference model knows nothing about go-orbit-db: it decodes the operation JSON that the
// writers put into entry payloads and replays it sequentially.

type mOp struct {
	Key   *string `json:"key"`
	Op    string  `json:"op"`
	Value []byte  `json:"value"`
	Docs  []struct {
		Key   string `json:"key"`
		Value []byte `json:"value"`
	} `json:"docs"`
}

func decodeOp(payload []byte) (mOp, bool) {
	var o mOp
	if err := json.Unmarshal(payload, &o); err != nil {
		return o, false
	}
	return o, true
}

// ReplayLWW replays PUT / DEL / PUTALL in the given order, the last operation on a key
// winning. PUTALL members are keyed by their own document key.
func ReplayLWW(entries []ipfslog.Entry) map[string]string {
	st := map[string]string{}
	for _, e := range entries {
		o, ok := decodeOp(e.GetPayload())
		if !ok {
			continue
		}
		switch o.Op {
		case "PUT":
			if o.Key != nil {
				st[*o.Key] = string(o.Value)
			}
		case "DEL":
			if o.Key != nil {
				delete(st, *o.Key)
			}
		case "PUTALL":
			for _, d := range o.Docs {
				st[d.Key] = string(d.Value)
			}
		}
	}
	return st
}
