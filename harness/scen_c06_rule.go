package sim

func init() {
	FindScenario("C06", "kv-lww").Rule = "1-3 writer replicas of one key-value database; 3-14 (thorough: 3-40) Put/Delete over 1-5 keys (unicode, space, slash; empty and binary values) interleaved with 0-5 kernel steps each under a per-run fault mix (reorder, fetch-order, drop, dup, cut/heal, clock jump); LWW-replay and causal-order oracles at every quiescent step; non-trivial = at least 3 acknowledged writes and, with more than one replica, at least one entry replicated"
}
