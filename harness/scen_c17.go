package sim

import (
	"context"
	"fmt"
	"runtime"
	"sort"
	"strings"
	"time"

	orbitdb "berty.tech/go-orbit-db"
	"berty.tech/go-orbit-db/iface"
	"berty.tech/go-orbit-db/stores/operation"
	"github.com/anishathalye/porcupine"
)

func init() {
	Register(&Scenario{Prop: "C17", Name: "concurrent-writers", Run: scenC17, SoftParks: true, Weight: 1,
		Rule: "one key-value or event-log store on one node (replication off); 2-8 client goroutines each doing 1-3 writes, plus reader operations, with the three write-path hooks (after the log append, after the head is persisted, after the view update) active so that every writer parks there and the kernel releases one parked goroutine at a time in a drawn order (for 2 writers x 1 write every interleaving of the 2x3 park points is reachable and the space is covered many times over in the quick tier); in a sixth of the runs one write of the cached local heads fails with a disk error (that writer's call fails and is not counted as acknowledged; the linearizability check is skipped for such a run); oracle: every successful call returned a distinct entry, all are in the log and view when the writers finish, the invoke/return history (stamped with a global event counter) is linearizable against a sequential map/list model (porcupine), every crash prefix of the node's effect log recovers every entry acknowledged at or before it, and after clean close + reopen + Load(-1) all acknowledged entries are there; non-trivial = >=2 writers were parked at the same time at least once"})
}

type c17op struct {
	kind string // put | get | add | list
	key  string
	val  string
}

type c17out struct {
	val  string
	ok   bool
	list string
}

func scenC17(k *K) {
	typ := []string{"keyvalue", "eventlog"}[k.C.Intn(2)]
	no := false
	c := k.NewCluster(ClusterCfg{N: 1, Type: typ, CreateOpts: func(int) *orbitdb.CreateDBOptions { return &orbitdb.CreateDBOptions{Replicate: &no} }})
	T := c.Peers[0].Node
	st := c.Stores[0]
	addr := st.Address().String()
	if k.C.Chance(1, 3) {
		c.RandomWrite(0) // non-empty start
	}
	startEffects := len(T.Disk.Effects)
	preExisting := LogHashSet(st)
	// in a sixth of the runs one write of the cached local heads fails (a transient disk
	// error, the 1st-3rd such write of the concurrent phase): that writer's call fails, its
	// entry may be in the log; everybody else's guarantees stand
	faulty := k.C.Chance(1, 6)
	if faulty {
		skip := k.C.Intn(3)
		nd := T
		k.W.mu.Lock()
		k.W.DiskFault = func(on *Node, kind, space, key string) error {
			if on == nd && kind == "cache-put" && strings.HasSuffix(key, "_localHeads") {
				if skip > 0 {
					skip--
					return nil
				}
				k.W.DiskFault = nil
				k.W.stat("local-heads-write-failed")
				return fmt.Errorf("sim: disk error on %s", key)
			}
			return nil
		}
		k.W.mu.Unlock()
		k.cleanups = append(k.cleanups, func() { k.W.mu.Lock(); k.W.DiskFault = nil; k.W.mu.Unlock() })
	}
	// two ways of interleaving the writers: parked at the three write-path hooks and released one
	// at a time (coarse, complete at that granularity), or free-running and interleaved at the
	// inserted statement-level yield points only (fine, e.g. inside the view update)
	free := k.C.Chance(1, 3)
	if !free {
		k.InstallHooks(func(pt string, owner interface{}) bool {
			switch pt {
			case "store.after-append", "store.after-head-persisted", "store.after-index":
				return OwnerStoreID(owner) == addr
			}
			return false
		})
	} else {
		k.W.Stat("free-running-writers")
	}
	nw := k.C.Range(2, 8)
	if k.C.Chance(1, 3) {
		nw = 2
	}
	type wrec struct {
		op   *Op
		in   c17op
		hash string
	}
	var recs []*wrec
	var reads []*wrec
	var writerOps []*Op
	vseq := 0
	keys := []string{"a", "b"}
	for w := 0; w < nw; w++ {
		per := k.C.Range(1, 3)
		if nw == 2 && k.C.Chance(1, 2) {
			per = 1
		}
		w := w
		var plan []c17op
		for j := 0; j < per; j++ {
			vseq++
			if typ == "keyvalue" {
				plan = append(plan, c17op{kind: "put", key: keys[k.C.Intn(2)], val: fmt.Sprintf("c%d.%d", w, vseq)})
			} else {
				plan = append(plan, c17op{kind: "add", val: fmt.Sprintf("c%d.%d", w, vseq)})
			}
		}
		// each write is its own recorded operation; a client issues them one after another
		client := k.Go(0, fmt.Sprintf("client%d", w), func() (interface{}, error) {
			for _, in := range plan {
				in := in
				r := &wrec{in: in}
				k.W.mu.Lock()
				k.evSeq++
				r.op = &Op{Name: in.kind + " " + in.key + "=" + in.val, Node: w, InvSeq: k.evSeq}
				recs = append(recs, r)
				k.W.mu.Unlock()
				ctx, cancel := OpCtx(10 * time.Minute)
				var o operation.Operation
				var err error
				if in.kind == "put" {
					o, err = st.(iface.KeyValueStore).Put(ctx, in.key, []byte(in.val))
				} else {
					o, err = st.(iface.EventLogStore).Add(ctx, []byte(in.val))
				}
				cancel()
				k.W.mu.Lock()
				k.evSeq++
				r.op.RetSeq = k.evSeq
				r.op.Err = err
				r.op.Done = true
				r.op.EffAt = len(T.Disk.Effects)
				if err == nil {
					r.hash = o.GetEntry().GetHash().String()
				}
				k.W.mu.Unlock()
			}
			return nil, nil
		})
		writerOps = append(writerOps, client)
	}
	maxParked := 0
	allDone := func() bool {
		for _, o := range writerOps {
			if !k.IsDone(o) {
				return false
			}
		}
		return true
	}
	for i := 0; i < 2000 && !allDone(); i++ {
		k.Wait()
		ps := k.Parks()
		if len(ps) > maxParked {
			maxParked = len(ps)
		}
		if k.C.Chance(1, 4) {
			// a reader, concurrent with the parked writers
			in := c17op{kind: "get", key: keys[k.C.Intn(2)]}
			if typ == "eventlog" {
				in = c17op{kind: "list"}
			}
			r := &wrec{in: in}
			var out c17out
			r.op = k.Do(0, "read "+in.key, 5, func() (interface{}, error) {
				if in.kind == "get" {
					v, err := st.(iface.KeyValueStore).Get(context.Background(), in.key)
					out = c17out{val: string(v), ok: v != nil}
					return out, err
				}
				out = c17out{list: fmt.Sprint(listValues(st.(iface.EventLogStore)))}
				return out, nil
			})
			reads = append(reads, r)
			continue
		}
		if len(ps) == 0 {
			k.Step()
			continue
		}
		k.bump()
		k.ReleaseOne(k.C.Intn(len(ps)))
	}
	UninstallHooks()
	k.ReleaseAllParks()
	k.Wait()
	if !allDone() {
		k.Failf("C17/writers-hang", "concurrent writers did not finish; parks=%d", len(k.Parks()))
	}
	// ---- exactly once, all visible ----
	seen := map[string]string{}
	have := LogHashSet(st)
	var acked []*wrec
	failedWrites := 0
	for _, r := range recs {
		if r.op.Err != nil && faulty && failedWrites == 0 && strings.Contains(r.op.Err.Error(), "sim: disk error") {
			failedWrites++ // the writer whose heads could not be persisted: not acknowledged
			continue
		}
		if r.op.Err != nil {
			k.Failf("C17/write-error", "%s failed: %v", r.op.Name, r.op.Err)
		}
		if prev, dup := seen[r.hash]; dup {
			k.Failf("C17/duplicate-entry", "%s and %s returned the same entry", prev, r.op.Name)
		}
		seen[r.hash] = r.op.Name
		if !have[r.hash] {
			k.Failf("C17/entry-missing", "the entry returned by %s is not in the log after the writers finished", r.op.Name)
		}
		acked = append(acked, r)
	}
	if kv, ok := st.(iface.KeyValueStore); ok && faulty {
		// the entry of the writer that failed may be in the log and not (yet) in the view
		base := map[string]bool{}
		for h := range preExisting {
			base[h] = true
		}
		for _, r := range acked {
			base[r.hash] = true
		}
		if ok, why := ReadAtSomeState(k, st, base, KVState(kv)); !ok {
			k.Failf("C17/view-differs", "after the writers finished (one write failed on a disk error) the view %s is not the replay of the acknowledged part of the log, with or without the failed writer's entry (%s)", MapStr(KVState(kv)), why)
		}
	} else if ok {
		if want, got := ReplayLWW(LogValues(st)), KVState(kv); !EqMap(want, got) {
			k.Failf("C17/view-differs", "after the writers finished the view %s is not the replay of the log %s", MapStr(got), MapStr(want))
		}
	} else {
		names := fmt.Sprint(LogNames(st))
		for _, r := range acked {
			if !containsVal(listValues(st.(iface.EventLogStore)), r.in.val) {
				k.Failf("C17/entry-not-listed", "%s is not listed: %s", r.op.Name, names)
			}
		}
	}
	// ---- linearizability (outside the bubble) ----
	var hist []porcupine.Operation
	for i, r := range recs {
		hist = append(hist, porcupine.Operation{ClientId: i % 16, Input: r.in, Call: r.op.InvSeq, Output: c17out{ok: true}, Return: r.op.RetSeq})
	}
	for _, r := range reads {
		if r.op.Done && r.op.Err == nil {
			hist = append(hist, porcupine.Operation{ClientId: 16, Input: r.in, Call: r.op.InvSeq, Output: r.op.Val.(c17out), Return: r.op.RetSeq})
		}
	}
	initial := KVStateAt(st, recs, typ)
	_ = initial
	// porcupine's search is exponential in the number of overlapping operations: only short
	// histories are checked (the others are counted, never reported)
	if faulty {
		// a failed write whose entry is in the log takes effect at some later moment of its
		// own: the sequential model has no such operation
		k.Notes["lin_skipped_failed_write"] = 1
	} else if len(hist) <= 14 {
		k.Notes["lin_checked"] = 1
		k.PostRun = append(k.PostRun, func() *Violation {
			v, inconclusive := c17Linearizable(typ, hist)
			if inconclusive {
				k.Notes["lin_inconclusive"] = 1
			}
			return v
		})
	} else {
		k.Notes["lin_skipped_long_history"] = 1
	}
	// ---- every crash prefix of the concurrent phase ----
	k.W.mu.Lock()
	effects := len(T.Disk.Effects)
	k.W.mu.Unlock()
	universe := map[string]bool{}
	for h := range have {
		universe[h] = true
	}
	finalHashes := have
	if faulty {
		finalHashes = map[string]bool{}
		for h := range preExisting {
			finalHashes[h] = true
		}
		for _, r := range acked {
			finalHashes[r.hash] = true
		}
	}
	c.Down(0, false)
	prefixes := 0
	wantP := map[int]bool{}
	if Tier == "thorough" || effects-startEffects <= 30 {
		for p := startEffects; p <= effects; p++ {
			wantP[p] = true
		}
	} else {
		for _, r := range acked {
			for d := -1; d <= 1; d++ {
				if p := r.op.EffAt + d; p >= startEffects && p <= effects && len(wantP) < 30 {
					wantP[p] = true
				}
			}
		}
		wantP[effects] = true
	}
	for p := startEffects; p <= effects; p++ {
		if !wantP[p] {
			continue
		}
		var must []string
		for _, r := range acked {
			if r.op.EffAt <= p {
				must = append(must, r.hash)
			}
		}
		c17Recover(k, c, T, p, must, universe)
		prefixes++
	}
	// ---- clean reopen ----
	if err := c.Up(0); err != nil {
		k.Failf("C17/reopen-failed", "%v", err)
	}
	after := LogHashSet(c.Stores[0])
	for h := range finalHashes {
		if !after[h] {
			k.Failf("C17/lost-after-restart", "after clean close + reopen + Load(-1) the entry of %s is gone (%d of %d entries recovered)", seen[h], len(after), len(finalHashes))
		}
	}
	k.Notes["writers"] = nw
	k.Notes["writes"] = len(recs)
	k.Notes["reads"] = len(reads)
	k.Notes["max_parked"] = maxParked
	k.Notes["crash_prefixes"] = prefixes
	k.Notes["nontrivial"] = maxParked >= 2 || (free && nw >= 2)
	c.CloseAll()
}

func KVStateAt(st iface.Store, _ interface{}, _ string) map[string]string { return nil }

func listValues(el iface.EventLogStore) []string {
	all := -1
	ops, _ := el.List(context.Background(), &iface.StreamOptions{Amount: &all})
	var out []string
	for _, o := range ops {
		out = append(out, string(o.GetValue()))
	}
	return out
}

func containsVal(vs []string, v string) bool {
	for _, x := range vs {
		if x == v {
			return true
		}
	}
	return false
}

func c17Recover(k *K, c *Cluster, T *Node, p int, must []string, universe map[string]bool) {
	img := T.Disk.FromPrefix(p)
	rn := k.W.AddNodeWithDisk(T.Idx, img)
	k.W.Stat("crash-prefix-recovered")
	rp, err := k.StartPeer(rn, c.PeerOpts...)
	if err != nil {
		k.Failf("C17/recover/new-instance-failed", "prefix %d: %v", p, err)
	}
	rp.Inc.SetOffline(true)
	defer func() {
		op := k.StopPeer(rp)
		k.Wait()
		for j := 0; j < 50 && !k.IsDone(op); j++ {
			k.Step()
		}
		k.W.Detach(rp.Inc)
	}()
	op := k.Do(rn.Idx, fmt.Sprintf("recover-open@%d", p), 200, func() (interface{}, error) {
		ctx, cancel := OpCtx(2 * time.Minute)
		defer cancel()
		return rp.DB.Open(ctx, c.Addr, c.createOpts(0))
	})
	if !op.Done || op.Err != nil {
		k.Failf("C17/recover/open-failed", "prefix %d: done=%v err=%v", p, op.Done, op.Err)
	}
	st := op.Val.(iface.Store)
	lop := k.Do(rn.Idx, fmt.Sprintf("recover-load@%d", p), 200, func() (interface{}, error) {
		ctx, cancel := OpCtx(2 * time.Minute)
		defer cancel()
		return nil, st.Load(ctx, -1)
	})
	if !lop.Done {
		k.Failf("C17/recover/load-hang", "prefix %d", p)
	}
	have := LogHashSet(st)
	for _, h := range must {
		if !have[h] {
			k.Failf("C17/recover/acked-entry-lost", "crash after effect %d of %d: an entry whose write call had returned is missing after Open+Load(-1); recovered %d entries %v", p, len(T.Disk.Effects), len(have), LogNames(st))
		}
	}
	for h := range have {
		if !universe[h] {
			k.Failf("C17/recover/phantom-entry", "prefix %d: %s", p, h)
		}
	}
}

// c17Linearizable checks the recorded history with porcupine against a sequential model.
func c17Linearizable(typ string, hist []porcupine.Operation) (*Violation, bool) {
	if len(hist) == 0 {
		return nil, false
	}
	var model porcupine.Model
	if typ == "keyvalue" {
		model = porcupine.Model{
			Init: func() interface{} { return map[string]string{} },
			Step: func(state, input, output interface{}) (bool, interface{}) {
				st := state.(map[string]string)
				in := input.(c17op)
				out := output.(c17out)
				switch in.kind {
				case "put":
					ns := map[string]string{}
					for k, v := range st {
						ns[k] = v
					}
					ns[in.key] = in.val
					return true, ns
				case "get":
					v, ok := st[in.key]
					return ok == out.ok && v == out.val, st
				}
				return false, st
			},
			Equal: func(a, b interface{}) bool { return MapStr(a.(map[string]string)) == MapStr(b.(map[string]string)) },
		}
		// the store may start non-empty: treat the first observed pre-existing values as initial
		init := map[string]string{}
		for _, o := range hist {
			if o.Input.(c17op).kind == "get" {
				out := o.Output.(c17out)
				if out.ok && len(out.val) > 0 && out.val[0] == 'w' {
					init[o.Input.(c17op).key] = out.val
				}
			}
		}
		model.Init = func() interface{} { return init }
	} else {
		model = porcupine.Model{
			Init: func() interface{} { return "" },
			Step: func(state, input, output interface{}) (bool, interface{}) {
				st := state.(string)
				in := input.(c17op)
				out := output.(c17out)
				switch in.kind {
				case "add":
					return true, st + " " + in.val
				case "list":
					// the listing shows exactly the adds linearized so far (after any pre-existing entries)
					return normalizeList(out.list) == normalizeList("["+st+"]"), st
				}
				return false, st
			},
			Equal: func(a, b interface{}) bool { return a.(string) == b.(string) },
		}
	}
	// the search is CPU-bound and this process runs on one P without timer-driven preemption:
	// the model yields now and then so that the checker's timeout can take effect
	steps := 0
	inner := model.Step
	model.Step = func(state, input, output interface{}) (bool, interface{}) {
		if steps++; steps%2048 == 0 {
			runtime.Gosched()
		}
		return inner(state, input, output)
	}
	res := porcupine.CheckOperationsTimeout(model, hist, 5*time.Second)
	if res == porcupine.Unknown {
		return nil, true
	}
	if res == porcupine.Illegal {
		var lines []string
		sort.Slice(hist, func(i, j int) bool { return hist[i].Call < hist[j].Call })
		for _, o := range hist {
			lines = append(lines, fmt.Sprintf("[%d,%d] %+v -> %+v", o.Call, o.Return, o.Input, o.Output))
		}
		return &Violation{Signature: "C17/not-linearizable/" + typ, Detail: fmt.Sprintf("history of %d operations is not linearizable against the sequential model:\n%v", len(hist), lines)}, false
	}
	return nil, false
}

func normalizeList(s string) string {
	// drop pre-existing entries (values starting with 'w') and brackets
	var out []string
	cur := ""
	flush := func() {
		if cur != "" && cur[0] != 'w' {
			out = append(out, cur)
		}
		cur = ""
	}
	for _, r := range s {
		switch r {
		case '[', ']', ' ':
			flush()
		default:
			cur += string(r)
		}
	}
	flush()
	return fmt.Sprint(out)
}
