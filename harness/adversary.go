package sim

import (
	"context"
	"encoding/json"
	"fmt"
	"sort"
	"strings"

	ipfslog "berty.tech/go-ipfs-log"
	"berty.tech/go-ipfs-log/entry"
	idp "berty.tech/go-ipfs-log/identityprovider"
	"berty.tech/go-ipfs-log/io/cbor"
	"berty.tech/go-ipfs-log/keystore"
	"berty.tech/go-orbit-db/iface"
	cid "github.com/ipfs/go-cid"
	"github.com/libp2p/go-libp2p/core/crypto"
)

// Adversary is a hostile peer: a node of the simulated network with its own block store and
// keystore, but no OrbitDB instance. It crafts entries with go-ipfs-log's exported API, stores
// blocks under their true CID (like IPFS, the stub cannot hold bytes under a foreign CID),
// publishes arbitrary bytes on any topic and serves its blocks to whoever asks.
type Adversary struct {
	K         *K
	Node      *Node
	Inc       *Inc
	API       *API
	KS        *keystore.Keystore
	Own       *idp.Identity
	n         int
	victimPub []byte
}

func (k *K) NewAdversary() *Adversary {
	n := k.W.AddNode()
	inc := n.Boot()
	ks, err := keystore.NewKeystore(inc.NewKeystoreDS())
	if err != nil {
		panic(abortPanic{err.Error()})
	}
	a := &Adversary{K: k, Node: n, Inc: inc, API: inc.API(), KS: ks}
	a.Own, err = idp.CreateIdentity(context.Background(), &idp.CreateIdentityOptions{Keystore: ks, Type: "orbitdb", ID: n.ID.String()})
	if err != nil {
		panic(abortPanic{"adversary identity: " + err.Error()})
	}
	return a
}

// ForgedIdentity builds the identity block an entry will claim, and makes sure the adversary's
// keystore holds a signing key under that identity's id (so CreateEntry signs with it).
//
//	own             the adversary's own, honest identity
//	copied-id       victim's id; public key and signatures are the adversary's
//	foreign-type    as copied-id, and the identity's type is one the identity provider does not know
//	copied-block    victim's whole identity block (id, public key, signatures); entry key = victim's
//	                public key, signature by the adversary's key (does not verify)
//	block-and-key   victim's whole identity block; entry key swapped to the adversary's key so that
//	                the entry signature verifies
func (a *Adversary) ForgedIdentity(kind string, victim *idp.Identity) (*idp.Identity, crypto.PrivKey) {
	ctx := context.Background()
	a.victimPub = victim.PublicKey
	switch kind {
	case "own":
		return a.Own, nil
	}
	priv, err := a.KS.GetKey(ctx, victim.ID)
	if err != nil || priv == nil {
		priv, err = a.KS.CreateKey(ctx, victim.ID)
		if err != nil {
			panic(abortPanic{"adversary key: " + err.Error()})
		}
	}
	if strings.HasPrefix(kind, "mix:") && len(kind) == 8 {
		// mix:PISK - which of the identity's public key, id signature, public-key signature and
		// the entry key are the victim's (V) or the adversary's (A); the id is always the
		// victim's and the signing key always the adversary's
		pick := func(c byte, v, a []byte) []byte {
			if c == 'V' {
				return v
			}
			return a
		}
		advPub := uncompressedPub(priv)
		return &idp.Identity{
			ID:        victim.ID,
			PublicKey: pick(kind[4], victim.PublicKey, advPub),
			Signatures: &idp.IdentitySignature{
				ID:        pick(kind[5], victim.Signatures.ID, a.Own.Signatures.ID),
				PublicKey: pick(kind[6], victim.Signatures.PublicKey, a.Own.Signatures.PublicKey),
			},
			Type: victim.Type, Provider: a.Own.Provider,
		}, priv
	}
	switch kind {
	case "copied-id":
		pub := uncompressedPub(priv)
		return &idp.Identity{ID: victim.ID, PublicKey: pub, Signatures: a.Own.Signatures, Type: victim.Type, Provider: a.Own.Provider}, priv
	case "foreign-type":
		// like copied-id, but the identity says it is of a type the provider knows nothing about
		pub := uncompressedPub(priv)
		// (half of the time a name that differs from the real one in the case of its letters)
		typ := "forged"
		if a.K.C.Chance(1, 2) {
			typ = strings.ToUpper(victim.Type[:1]) + victim.Type[1:]
			if len(victim.Type) > 5 {
				typ = typ[:5] + strings.ToUpper(typ[5:6]) + typ[6:]
			}
		}
		return &idp.Identity{ID: victim.ID, PublicKey: pub, Signatures: a.Own.Signatures, Type: typ, Provider: a.Own.Provider}, priv
	case "copied-block", "block-and-key":
		return &idp.Identity{ID: victim.ID, PublicKey: victim.PublicKey, Signatures: victim.Signatures, Type: victim.Type, Provider: a.Own.Provider}, priv
	}
	panic("unknown forgery kind " + kind)
}

func uncompressedPub(priv crypto.PrivKey) []byte {
	raw, _ := priv.GetPublic().Raw()
	// identities carry the uncompressed secp256k1 key
	id, err := idpUncompress(raw)
	if err != nil {
		return raw
	}
	return id
}

// Craft creates, signs and stores (on the adversary's own node) one entry.
func (a *Adversary) Craft(kind string, ident *idp.Identity, priv crypto.PrivKey, logID string, payload []byte, next []cid.Cid, clockTime int) (*entry.Entry, error) {
	return a.CraftRefs(kind, ident, priv, logID, payload, next, []cid.Cid{}, clockTime)
}

// CraftRefs is Craft with the entry's skip-list references (refs) chosen as well.
func (a *Adversary) CraftRefs(kind string, ident *idp.Identity, priv crypto.PrivKey, logID string, payload []byte, next, refs []cid.Cid, clockTime int) (*entry.Entry, error) {
	ctx := context.Background()
	io, err := cbor.IO(&entry.Entry{}, &entry.LamportClock{})
	if err != nil {
		return nil, err
	}
	e, err := entry.CreateEntryWithIO(ctx, a.API, ident, &entry.Entry{
		LogID:   logID,
		Payload: payload,
		Next:    next,
		Refs:    refs,
		Clock:   entry.NewLamportClock(ident.PublicKey, clockTime),
	}, nil, io)
	if err != nil {
		return nil, err
	}
	out := e.(*entry.Entry)
	if strings.HasPrefix(kind, "mix:") && len(kind) == 8 {
		want := out.Key
		if kind[7] == 'A' {
			want = uncompressedPub(priv)
		} else {
			want = a.victimPub
		}
		if string(want) != string(out.Key) {
			out.Key = want
			h, err := entry.ToMultihashWithIO(ctx, out, a.API, nil, io)
			if err != nil {
				return nil, err
			}
			out.Hash = h
		}
	}
	if kind == "block-and-key" {
		// the signature covers neither `key` nor the identity block: swap the key for the one
		// that really signed and recompute the address
		out.Key = uncompressedPub(priv)
		h, err := entry.ToMultihashWithIO(ctx, out, a.API, nil, io)
		if err != nil {
			return nil, err
		}
		out.Hash = h
	}
	a.n++
	return out, nil
}

// StoreMutated writes an arbitrary entry object to the adversary's block store under its true
// address and returns that address.
func (a *Adversary) StoreEntry(e *entry.Entry) (cid.Cid, error) {
	io, err := cbor.IO(&entry.Entry{}, &entry.LamportClock{})
	if err != nil {
		return cid.Undef, err
	}
	return entry.ToMultihashWithIO(context.Background(), e, a.API, nil, io)
}

func HeadsMessage(address string, heads ...*entry.Entry) []byte {
	b, _ := json.Marshal(&iface.MessageExchangeHeads{Address: address, Heads: heads})
	return b
}

// PairTopic is the oneonone direct-channel topic between two peers.
func PairTopic(a, b *Node) string {
	ids := []string{a.ID.String(), b.ID.String()}
	sort.Strings(ids)
	return fmt.Sprintf("/%s/%s", "ipfs-pubsub-direct-channel/v1", strings.Join(ids, "/"))
}

// JoinTopic subscribes the adversary to a topic (so that honest peers see it there).
func (a *Adversary) JoinTopic(topic string) {
	_, _ = a.API.PubSub().Subscribe(context.Background(), topic)
}

// PublishRaw publishes bytes on a topic as the adversary.
func (a *Adversary) PublishRaw(topic string, data []byte) {
	a.K.W.mu.Lock()
	a.K.W.tr("inject n%d t%d len=%d", a.Node.Idx, a.K.W.topicIdx(topic), len(data))
	a.K.W.stat("inject")
	a.K.W.mu.Unlock()
	a.K.W.InjectPublish(a.Node.Idx, topic, data)
}

// Sees reports whether the adversary's membership view has peer p on topic.
func (a *Adversary) Sees(topic string, p *Node) bool {
	a.K.W.mu.Lock()
	defer a.K.W.mu.Unlock()
	return a.Inc.view[topic][p.Idx]
}

// Deliver routes crafted heads to a victim store by one of the property's routes.
//
//	topic   announced on the database topic
//	direct  sent on the pairwise direct channel (head exchange)
//	sync    handed to the victim's Sync by its own application (manual sync)
func (a *Adversary) Deliver(route string, victim *Peer, st iface.Store, heads ...*entry.Entry) {
	addr := st.Address().String()
	a.K.W.Stat("forge-route:" + route)
	switch route {
	case "topic":
		a.PublishRaw(addr, HeadsMessage(addr, heads...))
	case "direct":
		a.PublishRaw(PairTopic(a.Node, victim.Node), HeadsMessage(addr, heads...))
	case "sync":
		var hs []ipfslog.Entry
		for _, h := range heads {
			b, _ := json.Marshal(h)
			ne := &entry.Entry{}
			_ = json.Unmarshal(b, ne)
			hs = append(hs, ne)
		}
		// the victim's application may give up on this request at any moment
		ctx, cancel := context.WithCancel(context.Background())
		a.K.cleanups = append(a.K.cleanups, cancel)
		a.K.RegisterCancel(victim.Node.Idx, cancel)
		a.K.Go(victim.Node.Idx, "sync-foreign-heads", func() (interface{}, error) {
			return nil, st.Sync(ctx, hs)
		})
	}
}

// Engage makes the adversary visible on the database topic and on the pair channel with the
// victim, and drives the kernel until the victim has connected its side of the channel.
func (a *Adversary) Engage(victim *Peer, st iface.Store) {
	k := a.K
	addr := st.Address().String()
	a.JoinTopic(addr)
	a.JoinTopic(PairTopic(a.Node, victim.Node))
	saved := k.F
	k.F = BenignCfg()
	for i := 0; i < 300; i++ {
		k.Step()
		k.W.mu.Lock()
		ok := a.Inc.view[addr][victim.Node.Idx] && a.Inc.view[PairTopic(a.Node, victim.Node)][victim.Node.Idx]
		k.W.mu.Unlock()
		if ok {
			break
		}
	}
	k.F = saved
}

// lastCID returns some CID that is not the address of the entry it is attached to.
func (a *Adversary) lastCID() cid.Cid {
	e, err := a.Craft("own", a.Own, nil, "decoy", []byte("decoy"), nil, 1)
	if err != nil {
		return cid.Undef
	}
	return e.Hash
}
