package sim

import (
	"encoding/json"
	"fmt"
	mh "github.com/multiformats/go-multihash"
	"time"

	"berty.tech/go-ipfs-log/entry"
	orbitdb "berty.tech/go-orbit-db"
	"berty.tech/go-orbit-db/iface"
	"berty.tech/go-orbit-db/stores/operation"
	"berty.tech/go-orbit-db/stores/replicator"
	cid "github.com/ipfs/go-cid"
)

func init() {
	Register(&Scenario{Prop: "C10", Name: "rejected-do-not-block", Run: scenC10, SoftParks: true, Weight: 1,
		Rule: "honest writer W, receiver R (ReplicationConcurrency in {1,2,32}) and an adversary; W writes 1-3 entries that R replicates (in a quarter of the runs none: R has never checked an entry of W's), then 1-4 more while R is cut off (their announcements are lost); after the heal, before any honest exchange, the adversary announces to R 1-3 messages whose head lists mix copies of W's valid current heads with 1-3 rejected heads drawn from {non-writer author, writer's identity block with a foreign signature, the same keyed with the forger's key, the same naming a predecessor nobody holds, (a third of the runs: the adversary is a listed writer) a valid entry of the adversary on top of such a forged entry, or on top of an entry W wrote for another database (refused by the replicator while it fetches the ancestry), entry of another database written by W, valid entry with a wrong claimed hash, copy of a valid current head with its payload altered after signing} at every position (permutation drawn per run), block fetches complete in a drawn order; in half the runs with a listed adversary it then floods: while R's store holds a fetched batch with a log the join refuses, one message announces 140 valid heads of the adversary's own (more than the 128 replicator events the store queues), and the store goes on; then W's valid heads are announced again by an honest message (topic announcement, head exchange after the pollers notice the heal, or manual Sync, drawn per run); oracle: at rest R holds every entry W wrote; non-trivial = at least one mixed message (valid and rejected heads together) was processed and R lacked >=1 valid entry before it"})
}

func scenC10(k *K) {
	conc := []uint{1, 2, 32}[k.C.Intn(3)]
	adv := k.NewAdversary()
	typ := []string{"keyvalue", "eventlog"}[k.C.Intn(2)]
	rWrites := k.C.Chance(1, 3)
	writers := []int{0}
	if rWrites {
		writers = []int{0, 1}
	}
	// in a third of the runs the adversary is on the write list as well (a writer that
	// misbehaves): its own entries are valid, what they name as predecessor need not be
	collude := k.C.Chance(1, 3)
	var extra []string
	if collude {
		extra = []string{adv.Own.ID}
	}
	c := k.NewCluster(ClusterCfg{N: 2, Type: typ, Writers: writers, ExtraIDs: extra, PeerOpts: []PeerOpt{WithKnobs(Knobs{Concurrency: conc})}})
	W, R := c.Stores[0], c.Stores[1]
	// a second database of W's, to harvest a "foreign database" entry signed by an authorised writer
	var foreign *entry.Entry
	{
		op := k.Do(0, "create-other", 50, func() (interface{}, error) {
			ctx, cancel := OpCtx(time.Minute)
			defer cancel()
			return c.Peers[0].DB.Create(ctx, "other", typ, &orbitdb.CreateDBOptions{AccessController: WriteACL(c.Peers[0].DB.Identity().ID)})
		})
		if op.Done && op.Err == nil {
			other := op.Val.(iface.Store)
			wop := k.Do(0, "write-other", 20, func() (interface{}, error) {
				ctx, cancel := OpCtx(time.Minute)
				defer cancel()
				return c09Write(ctx, other, "other-db")
			})
			if wop.Done && wop.Err == nil {
				hs := CopyHeads(other.OpLog().Heads().Slice())
				if len(hs) == 1 {
					foreign = hs[0].(*entry.Entry)
				}
			}
		}
	}
	// in a quarter of the runs R has seen nothing of W's yet when the hostile announcements
	// come: the first entry under W's identity that it ever checks may be a forged one
	if k.C.Chance(3, 4) {
		for i, m := 0, k.C.Range(1, 3); i < m; i++ {
			c.RandomWrite(0)
			k.Steps(k.C.Intn(8))
		}
	} else {
		k.W.Stat("receiver-knows-nothing-of-the-writer-yet")
	}
	k.Settle(60*time.Second, 2500, c.AllIdle)
	adv.Engage(c.Peers[1], R)
	// R is cut off while W moves on
	k.W.HoldOnCut = false
	k.Cut(0, 1)
	saved := k.F
	k.F = FaultCfg{Refresh: 5, Tick: 1}
	k.Steps(8)
	k.Tick(2500 * time.Millisecond)
	k.Steps(8)
	for i, m := 0, k.C.Range(1, 4); i < m; i++ {
		c.RandomWrite(0)
	}
	lackedBefore := len(LogHashSet(W)) - len(LogHashSet(R))
	k.Heal(0, 1)
	// no membership refresh between W and R yet: the hostile announcements come first
	k.F = FaultCfg{Deliver: 5, Serve: 3, ServeAny: 4, Tick: 1, Reorder: 2}
	valid := func() []*entry.Entry {
		var out []*entry.Entry
		for _, h := range CopyHeads(W.OpLog().Heads().Slice()) {
			out = append(out, h.(*entry.Entry))
		}
		return out
	}
	maxT := 0
	var next []cid.Cid
	for _, e := range LogValues(W) {
		if t := e.GetClock().GetTime(); t > maxT {
			maxT = t
		}
	}
	for _, h := range W.OpLog().Heads().Slice() {
		next = append(next, h.GetHash())
	}
	key := "a"
	mkPayload := func(tag string) []byte {
		p, _ := operation.NewOperation(&key, "PUT", []byte(tag)).Marshal()
		if typ == "eventlog" {
			p, _ = operation.NewOperation(nil, "ADD", []byte(tag)).Marshal()
		}
		return p
	}
	bad := func(kind string, n int) *entry.Entry {
		switch kind {
		case "nonwriter":
			e, err := adv.Craft("own", adv.Own, nil, c.Addr, mkPayload(fmt.Sprintf("bad-%d", n)), next, maxT+1)
			if err != nil {
				return nil
			}
			return e
		case "forged-block":
			ident, priv := adv.ForgedIdentity("copied-block", W.Identity())
			e, err := adv.Craft("copied-block", ident, priv, c.Addr, mkPayload(fmt.Sprintf("bad-%d", n)), next, maxT+1)
			if err != nil {
				return nil
			}
			return e
		case "forged-block-and-key":
			// the writer's identity block, the entry keyed and signed by the forger
			ident, priv := adv.ForgedIdentity("block-and-key", W.Identity())
			e, err := adv.Craft("block-and-key", ident, priv, c.Addr, mkPayload(fmt.Sprintf("bad-%d", n)), next, maxT+1)
			if err != nil {
				return nil
			}
			return e
		case "forged-dangling":
			// a forged head (the writer's identity block, a payload the writer never signed)
			// whose predecessor is a block nobody holds: whoever fetches it waits for good
			h, _ := mh.Sum([]byte(fmt.Sprintf("nobody-holds-this-%d", n)), mh.SHA2_256, -1)
			ident, priv := adv.ForgedIdentity("copied-block", W.Identity())
			e, err := adv.Craft("copied-block", ident, priv, c.Addr, mkPayload(fmt.Sprintf("bad-%d", n)), append([]cid.Cid{cid.NewCidV1(cid.DagCBOR, h)}, next...), maxT+1)
			if err != nil {
				return nil
			}
			return e
		case "forged-ancestor":
			// a valid entry of the misbehaving writer on top of a forged one (the writer's
			// identity block, a payload it never signed) and the current valid heads: the
			// forged entry reaches the join as a log of its own, next to the valid ones
			if !collude {
				return nil
			}
			ident, priv := adv.ForgedIdentity("copied-block", W.Identity())
			f, err := adv.Craft("copied-block", ident, priv, c.Addr, mkPayload(fmt.Sprintf("bad-%d", n)), next, maxT+1)
			if err != nil {
				return nil
			}
			child, err := adv.Craft("own", adv.Own, nil, c.Addr, mkPayload(fmt.Sprintf("child-%d", n)), append([]cid.Cid{f.Hash}, next...), maxT+2)
			if err != nil {
				return nil
			}
			return child
		case "foreign-ancestor":
			// a valid entry of the misbehaving writer that names, next to the current valid
			// heads, an entry W wrote for another database: the head passes every check made
			// on an announcement, the replicator meets the foreign entry while it fetches the
			// ancestry and refuses it there
			if !collude || foreign == nil {
				return nil
			}
			child, err := adv.Craft("own", adv.Own, nil, c.Addr, mkPayload(fmt.Sprintf("child-of-foreign-%d", n)), append([]cid.Cid{foreign.Hash}, next...), maxT+1)
			if err != nil {
				return nil
			}
			return child
		case "altered-valid":
			// a copy of one of W's valid current heads with its payload altered after signing
			// (the genuine hash, signature and identity kept): refused, and the genuine head
			// announced afterwards is as good as ever
			vs := valid()
			if len(vs) == 0 || len(vs[0].Payload) == 0 {
				return nil
			}
			e := vs[0]
			pl := append([]byte(nil), e.Payload...)
			pl[len(pl)/2] ^= 0x01
			e.Payload = pl
			return e
		case "foreign-db":
			if foreign == nil {
				return nil
			}
			b, _ := json.Marshal(foreign)
			ne := &entry.Entry{}
			_ = json.Unmarshal(b, ne)
			return ne
		case "wrong-hash":
			vs := valid()
			if len(vs) == 0 {
				return nil
			}
			e := vs[0]
			if foreign != nil {
				e.Hash = foreign.Hash
			} else {
				e.Hash = adv.lastCID()
			}
			return e
		}
		return nil
	}
	kinds := []string{"nonwriter", "forged-block", "foreign-db", "wrong-hash", "forged-dangling", "forged-block-and-key", "altered-valid"}
	if collude {
		kinds = append(kinds, "forged-ancestor", "forged-ancestor", "foreign-ancestor", "foreign-ancestor")
	}
	mixed := 0
	nmsg := k.C.Range(1, 3)
	for m := 0; m < nmsg; m++ {
		var heads []*entry.Entry
		nbad := k.C.Range(1, 3)
		includeValid := k.C.Chance(3, 4)
		if includeValid {
			heads = append(heads, valid()...)
		}
		desc := ""
		for b := 0; b < nbad; b++ {
			kind := kinds[k.C.Intn(len(kinds))]
			if e := bad(kind, m*10+b); e != nil {
				heads = append(heads, e)
				desc += kind + ","
				k.W.Stat("rejected-head:" + kind)
			}
		}
		perm := k.C.Perm(len(heads))
		shuffled := make([]*entry.Entry, len(heads))
		for i, p := range perm {
			shuffled[i] = heads[p]
		}
		if includeValid && desc != "" {
			mixed++
			k.W.Stat("mixed-announcement")
		}
		route := []string{"topic", "direct"}[k.C.Intn(2)]
		adv.Deliver(route, c.Peers[1], R, shuffled...)
		k.Steps(k.C.Range(2, 20))
	}
	k.Steps(k.C.Range(5, 40))
	if collude && k.C.Chance(1, 2) {
		// the misbehaving writer floods: while R's store sits on a fetched batch that holds a
		// log the join refuses (its valid entry on top of a forged one), it announces 140
		// valid heads of its own in one message (more than the 128 events R's store lets
		// the replicator queue); then the store goes on with the batch
		k.InstallHooks(func(pt string, owner interface{}) bool {
			o, ok := owner.(interface{ Replicator() replicator.Replicator })
			return pt == "store.load-end" && ok && o.Replicator() == R.Replicator()
		})
		if e := bad("forged-ancestor", 900); e != nil {
			adv.Deliver("direct", c.Peers[1], R, e)
			parked := false
			for j := 0; j < 300 && !parked; j++ {
				k.Step()
				parked = len(k.Parks()) > 0
			}
			if parked {
				var flood []*entry.Entry
				for j := 0; j < 140; j++ {
					if f, err := adv.Craft("own", adv.Own, nil, c.Addr, mkPayload(fmt.Sprintf("flood-%d", j)), nil, 1); err == nil {
						flood = append(flood, f)
					}
				}
				adv.Deliver([]string{"topic", "direct"}[k.C.Intn(2)], c.Peers[1], R, flood...)
				k.Steps(k.C.Range(10, 60))
				k.W.Stat("flood-of-valid-heads-beside-refused-batch")
			}
		}
		k.ReleaseAllParks()
		k.RemoveHooks()
		k.Steps(k.C.Range(5, 40))
	}
	// honest re-announcement of the valid heads
	how := k.C.Intn(3)
	switch how {
	case 0:
		k.W.mu.Lock()
		k.W.tr("honest re-announcement by W on the topic")
		k.W.mu.Unlock()
		k.W.InjectPublish(0+c.Peers[0].Node.Idx, c.Addr, HeadsMessage(c.Addr, valid()...))
	case 1:
		// let the pollers notice the heal: head exchange on (re)join
	case 2:
		c.ManualSync(0, 1)
	}
	k.W.Stat(fmt.Sprintf("reannounce:%d", how))
	k.F = saved
	rest := k.Settle(180*time.Second, 6000, nil)
	have := LogHashSet(R)
	var missing []string
	for _, e := range LogValues(W) {
		if !have[e.GetHash().String()] {
			missing = append(missing, EntryName(e))
		}
	}
	if len(missing) > 0 {
		rs, _ := ReplStats(R)
		k.Failf("C10/valid-entries-blocked", "after %d hostile announcement(s) (%d mixing valid and rejected heads) and an honest re-announcement (mode %d), R at rest (%v) still lacks %d valid entries %v; replicator %+v; pending=%v", nmsg, mixed, how, rest, len(missing), missing, rs, k.PendingDesc())
	}
	if kv, ok := R.(iface.KeyValueStore); ok {
		if want, got := ReplayLWW(LogValues(R)), KVState(kv); !EqMap(want, got) {
			k.Failf("C10/state-behind-log", "R's view %s is not the replay of its own log %s after hostile announcements", MapStr(got), MapStr(want))
		}
	}
	k.Notes["mixed"] = mixed
	k.Notes["lacked_before"] = lackedBefore
	k.Notes["nontrivial"] = mixed > 0 && lackedBefore > 0
	c.CloseAll()
}
