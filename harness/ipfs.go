package sim

import (
	"bytes"
	"context"
	"errors"
	"fmt"
	"io"
	gopath "path"
	"sort"
	"strings"

	"berty.tech/go-orbit-db/address"
	"berty.tech/go-orbit-db/cache"
	chunker "github.com/ipfs/boxo/chunker"
	"github.com/ipfs/boxo/files"
	"github.com/ipfs/boxo/ipld/merkledag"
	unixfile "github.com/ipfs/boxo/ipld/unixfs/file"
	"github.com/ipfs/boxo/ipld/unixfs/importer"
	"github.com/ipfs/boxo/path"
	blocks "github.com/ipfs/go-block-format"
	cid "github.com/ipfs/go-cid"
	datastore "github.com/ipfs/go-datastore"
	cbornode "github.com/ipfs/go-ipld-cbor"
	ipld "github.com/ipfs/go-ipld-format"
	coreiface "github.com/ipfs/kubo/core/coreiface"
	"github.com/ipfs/kubo/core/coreiface/options"
	"github.com/libp2p/go-libp2p/core/peer"
)

// API is the stub coreiface.CoreAPI of one incarnation. Unimplemented parts are nil
// interfaces: a call into them panics loudly instead of silently doing nothing.
type API struct {
	coreiface.CoreAPI
	inc *Inc
}

func (i *Inc) API() *API { return &API{inc: i} }

func (a *API) Dag() coreiface.APIDagService { return &dagAPI{a.inc} }
func (a *API) Key() coreiface.KeyAPI        { return keyAPI{inc: a.inc} }
func (a *API) PubSub() coreiface.PubSubAPI  { return &psAPI{a.inc} }
func (a *API) Swarm() coreiface.SwarmAPI    { return swarmAPI{} }
func (a *API) Unixfs() coreiface.UnixfsAPI  { return &unixfsAPI{inc: a.inc} }
func (a *API) Pin() coreiface.PinAPI        { return pinAPI{} }

type pinAPI struct{ coreiface.PinAPI }

func (pinAPI) Add(context.Context, path.Path, ...options.PinAddOption) error { return nil }

type simKey struct{ id peer.ID }

func (k simKey) Name() string    { return "self" }
func (k simKey) Path() path.Path { return nil }
func (k simKey) ID() peer.ID     { return k.id }

type keyAPI struct {
	coreiface.KeyAPI
	inc *Inc
}

func (k keyAPI) Self(context.Context) (coreiface.Key, error) { return simKey{k.inc.Node.ID}, nil }

type swarmAPI struct{ coreiface.SwarmAPI }

func (swarmAPI) Connect(context.Context, peer.AddrInfo) error { return nil }

// ---------------- DAG ----------------

type dagAPI struct{ inc *Inc }

func (d *dagAPI) Pinning() ipld.NodeAdder { return d }

func (d *dagAPI) Add(_ context.Context, nd ipld.Node) error {
	w := d.inc.Node.W
	w.mu.Lock()
	defer w.mu.Unlock()
	k := nd.Cid().KeyString()
	if _, ok := d.inc.Node.Disk.blocks[k]; ok && !d.inc.detached {
		return nil
	}
	if w.DiskFault != nil {
		if err := w.DiskFault(d.inc.Node, "block", "", nd.Cid().String()); err != nil {
			w.stat("disk-error")
			return err
		}
	}
	raw := nd.RawData()
	v := make([]byte, len(raw))
	copy(v, raw)
	w.diskApplyLocked(d.inc, Effect{Kind: "block", Key: k, Val: v})
	return nil
}

func (d *dagAPI) AddMany(ctx context.Context, nds []ipld.Node) error {
	for _, nd := range nds {
		if err := d.Add(ctx, nd); err != nil {
			return err
		}
	}
	return nil
}

// offlineCtxKey marks a request whose block misses are answered at once with not-found (an
// application reading its own store back from disk without waiting for the network), while
// the node's other activity - replication - keeps fetching normally.
type offlineCtxKey struct{}

// WithOfflineReads returns a context under which block misses are not fetched.
func WithOfflineReads(ctx context.Context) context.Context {
	return context.WithValue(ctx, offlineCtxKey{}, true)
}

func decodeBlock(c cid.Cid, data []byte) (ipld.Node, error) {
	blk, err := blocks.NewBlockWithCid(data, c)
	if err != nil {
		return nil, err
	}
	switch c.Prefix().Codec {
	case cid.DagCBOR:
		return cbornode.DecodeBlock(blk)
	case cid.DagProtobuf:
		return merkledag.DecodeProtobufBlock(blk)
	case cid.Raw:
		return merkledag.DecodeRawBlock(blk)
	}
	return nil, fmt.Errorf("sim: unsupported codec %x", c.Prefix().Codec)
}

func (d *dagAPI) Get(ctx context.Context, c cid.Cid) (ipld.Node, error) {
	w := d.inc.Node.W
	if err := ctx.Err(); err != nil {
		return nil, err
	}
	w.mu.Lock()
	if d.inc.detached {
		w.mu.Unlock()
		return nil, errors.New("sim: node is down")
	}
	data, have := d.inc.Node.Disk.blocks[c.KeyString()]
	if have && !d.inc.slowLocal {
		w.mu.Unlock()
		return decodeBlock(c, data)
	}
	// (slowLocal: reading a local block takes a kernel step too, like a slow disk)
	if !have && (w.Offline || d.inc.offline || ctx.Value(offlineCtxKey{}) != nil) {
		w.mu.Unlock()
		return nil, ipld.ErrNotFound{Cid: c}
	}
	d.inc.pubseq++
	w.pseq++
	p := &Pend{kind: pkWant, src: d.inc.Node.Idx, dst: d.inc.Node.Idx, seq: d.inc.pubseq, pseq: w.pseq, c: c, done: make(chan error, 1), inc: d.inc}
	if w.EagerFetch && !d.inc.slowLocal && w.FailWant[c.String()] == 0 {
		// eager exchange: a block that a linked live peer holds arrives at once, so that a
		// node's fetch pipeline runs on without the kernel (its goroutines then interleave
		// with each other at the inserted yield points)
		if prov := w.providerLocked(p); prov != nil {
			data := prov.Disk.blocks[c.KeyString()]
			w.diskApplyLocked(d.inc, Effect{Kind: "block", Key: c.KeyString(), Val: data})
			w.stat("want-eager")
			if w.LogObs {
				w.ob("want-eager n%d #%d", p.src, p.seq)
			}
			w.mu.Unlock()
			return decodeBlock(c, data)
		}
	}
	w.pending = append(w.pending, p)
	w.stat("want")
	if w.LogObs {
		w.ob("want n%d #%d", p.src, p.seq)
	}
	w.mu.Unlock()
	select {
	case err := <-p.done:
		if err != nil {
			return nil, err
		}
		w.mu.Lock()
		data, ok := d.inc.Node.Disk.blocks[c.KeyString()]
		w.mu.Unlock()
		if !ok {
			return nil, ipld.ErrNotFound{Cid: c}
		}
		return decodeBlock(c, data)
	case <-ctx.Done():
		w.mu.Lock()
		w.removePendLocked(p)
		w.stat("want-cancelled")
		w.mu.Unlock()
		return nil, ctx.Err()
	}
}

func (d *dagAPI) GetMany(ctx context.Context, cs []cid.Cid) <-chan *ipld.NodeOption {
	out := make(chan *ipld.NodeOption, len(cs))
	go func() {
		defer close(out)
		for _, c := range cs {
			nd, err := d.Get(ctx, c)
			out <- &ipld.NodeOption{Node: nd, Err: err}
			if err != nil {
				return
			}
		}
	}()
	return out
}

func (d *dagAPI) Remove(context.Context, cid.Cid) error       { return nil }
func (d *dagAPI) RemoveMany(context.Context, []cid.Cid) error { return nil }

// ---------------- UnixFS (real boxo importer / reader over the stub DAG) ----------------

type unixfsAPI struct {
	coreiface.UnixfsAPI
	inc *Inc
}

func (u *unixfsAPI) Add(ctx context.Context, nd files.Node, _ ...options.UnixfsAddOption) (path.ImmutablePath, error) {
	f, ok := nd.(files.File)
	if !ok {
		return path.ImmutablePath{}, errors.New("sim unixfs: only files are supported")
	}
	data, err := io.ReadAll(f)
	if err != nil {
		return path.ImmutablePath{}, err
	}
	root, err := importer.BuildDagFromReader(&dagAPI{u.inc}, chunker.DefaultSplitter(bytes.NewReader(data)))
	if err != nil {
		return path.ImmutablePath{}, err
	}
	return path.FromCid(root.Cid()), nil
}

func (u *unixfsAPI) Get(ctx context.Context, p path.Path) (files.Node, error) {
	segs := p.Segments()
	if len(segs) < 2 {
		return nil, fmt.Errorf("sim unixfs: bad path %s", p)
	}
	c, err := cid.Decode(segs[1])
	if err != nil {
		return nil, err
	}
	ds := &dagAPI{u.inc}
	nd, err := ds.Get(ctx, c)
	if err != nil {
		return nil, err
	}
	return unixfile.NewUnixfsFile(ctx, ds, nd)
}

// ---------------- PubSub ----------------

type Msg struct {
	from  peer.ID
	data  []byte
	topic string
}

func (m *Msg) From() peer.ID    { return m.from }
func (m *Msg) Data() []byte     { return m.data }
func (m *Msg) Seq() []byte      { return nil }
func (m *Msg) Topics() []string { return []string{m.topic} }

type Sub struct {
	inc    *Inc
	topic  string
	q      []*Msg
	notify chan struct{}
	closed bool
	done   chan struct{}
}

func (s *Sub) push(m *Msg) { // world lock held
	if s.closed {
		return
	}
	s.q = append(s.q, m)
	select {
	case s.notify <- struct{}{}:
	default:
	}
}

func (s *Sub) close() { // world lock held
	if !s.closed {
		s.closed = true
		if yieldDebug != nil {
			yieldDebug("C sub-close n" + fmt.Sprint(s.inc.Node.Idx) + " " + s.topic[len(s.topic)-12:])
		}
		close(s.done)
	}
}

func (s *Sub) Close() error {
	w := s.inc.Node.W
	w.mu.Lock()
	defer w.mu.Unlock()
	if s.closed {
		return nil
	}
	s.close()
	subs := s.inc.subs[s.topic]
	for i, x := range subs {
		if x == s {
			s.inc.subs[s.topic] = append(subs[:i:i], subs[i+1:]...)
			break
		}
	}
	if len(s.inc.subs[s.topic]) == 0 {
		delete(s.inc.subs, s.topic)
		if !s.inc.detached {
			w.enqueueRefreshLocked(s.inc.Node.Idx, s.topic)
		}
	}
	return nil
}

func (s *Sub) Next(ctx context.Context) (coreiface.PubSubMessage, error) {
	w := s.inc.Node.W
	for {
		w.mu.Lock()
		if len(s.q) > 0 {
			m := s.q[0]
			s.q = s.q[1:]
			w.mu.Unlock()
			return m, nil
		}
		closed := s.closed
		w.mu.Unlock()
		if closed {
			return nil, errors.New("sim: subscription closed")
		}
		select {
		case <-s.notify:
		case <-s.done:
		case <-ctx.Done():
			return nil, ctx.Err()
		}
	}
}

type psAPI struct{ inc *Inc }

func (p *psAPI) Ls(context.Context) ([]string, error) {
	w := p.inc.Node.W
	w.mu.Lock()
	defer w.mu.Unlock()
	var ts []string
	for t := range p.inc.subs {
		ts = append(ts, t)
	}
	sort.Strings(ts)
	return ts, nil
}

func (p *psAPI) Peers(_ context.Context, opts ...options.PubSubPeersOption) ([]peer.ID, error) {
	o, _ := options.PubSubPeersOptions(opts...)
	w := p.inc.Node.W
	w.mu.Lock()
	defer w.mu.Unlock()
	if p.inc.detached {
		return nil, nil
	}
	var idx []int
	for i := range p.inc.view[o.Topic] {
		idx = append(idx, i)
	}
	sort.Ints(idx)
	out := make([]peer.ID, len(idx))
	for i, x := range idx {
		out[i] = w.Nodes[x].ID
	}
	return out, nil
}

func (p *psAPI) Publish(_ context.Context, topic string, data []byte) error {
	w := p.inc.Node.W
	w.mu.Lock()
	defer w.mu.Unlock()
	if p.inc.detached {
		return errors.New("sim: node is down")
	}
	cp := make([]byte, len(data))
	copy(cp, data)
	w.publishLocked(p.inc, topic, cp, p.inc.Node.ID)
	return nil
}

func (w *World) publishLocked(inc *Inc, topic string, data []byte, from peer.ID) {
	src := inc.Node.Idx
	inc.pubseq++
	tix := w.topicIdx(topic)
	if w.LogObs {
		w.ob("pub n%d t%d #%d len=%d", src, tix, inc.pubseq, len(data))
	}
	w.stat("publish")
	if w.OnPublish != nil {
		w.OnPublish(src, topic, data)
	}
	var dsts []int
	if len(inc.subs[topic]) > 0 {
		dsts = append(dsts, src)
	}
	for i := range inc.view[topic] {
		if i != src {
			dsts = append(dsts, i)
		}
	}
	sort.Ints(dsts)
	for _, d := range dsts {
		if !w.HoldOnCut && !w.linked(src, d) {
			w.stat("lost-on-cut-link")
			continue
		}
		w.pseq++
		w.pending = append(w.pending, &Pend{kind: pkMsg, src: src, dst: d, topic: topic, tix: tix, seq: inc.pubseq, pseq: w.pseq, data: data, from: from, srcInc: inc})
	}
}

func (p *psAPI) Subscribe(_ context.Context, topic string, _ ...options.PubSubSubscribeOption) (coreiface.PubSubSubscription, error) {
	w := p.inc.Node.W
	w.mu.Lock()
	defer w.mu.Unlock()
	s := &Sub{inc: p.inc, topic: topic, notify: make(chan struct{}, 1), done: make(chan struct{})}
	if p.inc.detached {
		s.close()
		return s, nil
	}
	first := len(p.inc.subs[topic]) == 0
	p.inc.subs[topic] = append(p.inc.subs[topic], s)
	if first {
		if w.LogObs {
			w.ob("sub n%d t%d", p.inc.Node.Idx, w.topicIdx(topic))
		}
		w.enqueueRefreshLocked(p.inc.Node.Idx, topic)
	}
	return s, nil
}

// InjectPublish lets the kernel (adversary) publish arbitrary bytes as node src.
func (w *World) InjectPublish(src int, topic string, data []byte) {
	w.mu.Lock()
	defer w.mu.Unlock()
	n := w.Nodes[src]
	if n.Inc == nil {
		return
	}
	w.publishLocked(n.Inc, topic, data, n.ID)
}

// ---------------- cache.Interface stub ----------------

type SimCache struct {
	inc  *Inc
	open map[string]*simDS
}

func (i *Inc) NewCache() *SimCache { return &SimCache{inc: i, open: map[string]*simDS{}} }

func cacheSpace(directory string, a address.Address) string {
	return gopath.Join(directory, gopath.Join(a.GetRoot().String(), a.GetPath()))
}

func (c *SimCache) Load(directory string, a address.Address) (datastore.Datastore, error) {
	w := c.inc.Node.W
	w.mu.Lock()
	defer w.mu.Unlock()
	k := cacheSpace(directory, a)
	if ds, ok := c.open[k]; ok {
		return ds, nil
	}
	ds := &simDS{inc: c.inc, kind: "cache", space: k}
	ds.onClose = func() {
		w.mu.Lock()
		if c.open[k] == ds {
			delete(c.open, k)
		}
		w.mu.Unlock()
	}
	c.open[k] = ds
	return ds, nil
}

func (c *SimCache) Close() error {
	w := c.inc.Node.W
	w.mu.Lock()
	var hs []*simDS
	var ks []string
	for k := range c.open {
		ks = append(ks, k)
	}
	sort.Strings(ks)
	for _, k := range ks {
		hs = append(hs, c.open[k])
	}
	w.mu.Unlock()
	for _, h := range hs {
		_ = h.Close()
	}
	return nil
}

func (c *SimCache) Destroy(directory string, a address.Address) error {
	w := c.inc.Node.W
	k := cacheSpace(directory, a)
	w.mu.Lock()
	ds := c.open[k]
	w.mu.Unlock()
	if ds != nil {
		_ = ds.Close()
	}
	w.mu.Lock()
	defer w.mu.Unlock()
	w.diskApplyLocked(c.inc, Effect{Kind: "cache-destroy", Space: k})
	return nil
}

var _ cache.Interface = (*SimCache)(nil)

func spaceForAddress(d *Disk, addr string) string {
	a, err := address.Parse(addr)
	if err != nil {
		return ""
	}
	suffix := gopath.Join(a.GetRoot().String(), a.GetPath())
	for _, s := range d.CacheSpaces() {
		if strings.HasSuffix(s, suffix) {
			return s
		}
	}
	return ""
}
