# Edited as properties are built. CHECKS: id -> (level category, level text); NOT_APPLICABLE: id -> reason.
CHECKS = {
 "C06": ("exploration", "Seeded search over write/replication histories of 1-3 replicas with network faults; at every quiescent kernel step each replica's Get/All is compared with a last-writer-wins replay of its own log by an independent model, and the log order is checked against the causal past recorded by the kernel. Exploration is the right level: the space of histories and schedules is unbounded and the oracle is exact per state."),
}
_PENDING = "claimed by the design (DESIGN.md §3) but its scenario is not built yet in this revision; no check is registered rather than registering an empty one"
NOT_APPLICABLE = {p: _PENDING for p in ["C%02d" % i for i in range(1, 21)] if p not in CHECKS}
